//! Reference: the escape set of the Jsonnet grammar (string literals follow JSON):
//!   \" \' \\ \/ \b \f \n \r \t \uXXXX     — anything else after a backslash is an error.
//! `\xHH` is a jrsonnet extension: when it is accepted it must denote the code point 0xHH.
use crate::prelude::symstr::SymStr;
use crate::unescape::unescape;

const L: usize = 6;

fn hexv(c: u8) -> Option<u32> {
    match c {
        b'0'..=b'9' => Some((c - b'0') as u32),
        b'a'..=b'f' => Some((c - b'a') as u32 + 10),
        b'A'..=b'F' => Some((c - b'A') as u32 + 10),
        _ => None,
    }
}
/// Ok(decoded code points), Err(true) = must be rejected, Err(false) = outside the reference
/// (\x extension, or a surrogate escape, which needs more than 6 bytes to be completed)
fn reference(b: &[u8; L], n: usize) -> Result<([u32; L], usize), bool> {
    let mut out = [0u32; L];
    let mut on = 0;
    let mut i = 0;
    let mut guard = 0;
    while i < n && guard < L {
        guard += 1;
        if b[i] != b'\\' {
            out[on] = b[i] as u32;
            on += 1;
            i += 1;
            continue;
        }
        if i + 1 >= n {
            return Err(true);
        }
        let e = b[i + 1];
        let (cp, adv) = match e {
            b'"' | b'\'' | b'\\' | b'/' => (e as u32, 2),
            b'b' => (8, 2),
            b'f' => (12, 2),
            b'n' => (10, 2),
            b'r' => (13, 2),
            b't' => (9, 2),
            b'u' => {
                if i + 5 >= n + 0 && i + 6 > n {
                    return Err(true);
                }
                let mut v = 0u32;
                let mut k = 0;
                while k < 4 {
                    match hexv(b[i + 2 + k]) {
                        Some(d) => v = v * 16 + d,
                        None => return Err(true),
                    }
                    k += 1;
                }
                if v >= 0xD800 && v <= 0xDFFF {
                    // a lone surrogate is an error; a pair cannot be completed within 6 bytes
                    return Err(true);
                }
                (v, 6)
            }
            b'x' => return Err(false),
            _ => return Err(true),
        };
        out[on] = cp;
        on += 1;
        i += adv;
    }
    Ok((out, on))
}

macro_rules! unescape_harness {
    ($name:ident, $len:literal) => {
        #[kani::proof]
        #[kani::unwind(9)]
        pub fn $name() {
            // concrete length, symbolic ASCII bytes
            let s = SymStr::<L>::any_ascii_len($len);
            let want = reference(&s.b, s.n);
            #[cfg(verif_playback)]
            {
                println!("REPLAY-INPUT: literal body={:?} reference={:?}", s.as_str(), want.map(|(o, n)| o[..n].to_vec()));
                // the body placed between double quotes is a Jsonnet program when it contains no raw quote
                if !s.bytes().contains(&b'"') && !s.bytes().iter().any(|c| *c < 0x20) {
                    let src_str = std::format!("std.map(std.codepoint, std.stringChars({}{}{}))", '"', s.as_str(), '"');
                    println!("REPLAY-JSONNET: {}", src_str);
                    match &want {
                        Ok((o, n)) => {
                            let v: Vec<String> = o[..*n].iter().map(|c| c.to_string()).collect();
                            println!("REPLAY-EXPECT: value [{}]", v.join(","));
                        }
                        Err(true) => println!("REPLAY-EXPECT: error"),
                        Err(false) => println!("REPLAY-EXPECT: nocrash"),
                    }
                }
            }
            let got = unescape(s.as_str());
            match want {
                Ok((o, n)) => {
                    assert!(got.is_some(), "C06.unescape.accepts an escape of the Jsonnet grammar is rejected");
                    let g = got.unwrap();
                    // compare code point by code point
                    let mut it = g.as_str().chars();
                    let mut k = 0;
                    while k < L {
                        if k < n {
                            let c = it.next();
                            assert!(c.map(|c| c as u32) == Some(o[k]), "C06.unescape.value decoded character differs from the grammar's meaning of the escape");
                        }
                        k += 1;
                    }
                    assert!(it.next().is_none(), "C06.unescape.length extra characters decoded");
                }
                Err(true) => assert!(got.is_none(), "C06.unescape.rejects an escape outside the Jsonnet grammar is accepted"),
                Err(false) => {}
            }
            kani::cover!(want.is_ok() && $len >= 2 && s.b[0] == 0x5c, "valid escape reached");
            kani::cover!(matches!(want, Err(true)), "invalid escape reached");
        }
    };
}
//@harness name=unescape_2 tier=quick timeout=1500 unwind=9 desc="string-literal escape decoding equals the escape set of the Jsonnet grammar (quote, apostrophe, backslash, slash, b f n r t, uXXXX); everything else after a backslash is rejected" bounds="every ASCII literal body of exactly 2 bytes"
unescape_harness!(unescape_2, 2);
//@harness name=unescape_3 tier=quick timeout=1500 unwind=9 desc="same" bounds="every ASCII literal body of exactly 3 bytes"
unescape_harness!(unescape_3, 3);
//@harness name=unescape_6 tier=quick timeout=1500 unwind=9 desc="same (long enough for one uXXXX escape)" bounds="every ASCII literal body of exactly 6 bytes"
unescape_harness!(unescape_6, 6);

//@harness tier=quick timeout=600 desc="the xHH escape extension, where accepted, denotes the code point 0xHH" bounds="every pair of hexadecimal digits"
#[kani::proof]
#[kani::unwind(9)]
pub fn unescape_x() {
    let h: [u8; 2] = kani::any();
    kani::assume(hexv(h[0]).is_some() && hexv(h[1]).is_some());
    let body = [0x5c, b'x', h[0], h[1]];
    let s = unsafe { core::str::from_utf8_unchecked(&body) };
    let want = hexv(h[0]).unwrap() * 16 + hexv(h[1]).unwrap();
    #[cfg(verif_playback)]
    {
        println!("REPLAY-INPUT: literal body={:?}", s);
        println!("REPLAY-JSONNET: std.codepoint({}{}{})", '"', s, '"');
        println!("REPLAY-EXPECT: value {}", want);
    }
    if let Some(g) = unescape(s) {
        let mut it = g.as_str().chars();
        assert!(it.next().map(|c| c as u32) == Some(want) && it.next().is_none(), "C06.unescape.x the xHH escape must denote the code point 0xHH");
    }
    kani::cover!(want == 0x41, "x41 reached");
    kani::cover!(want >= 0x80, "non-ASCII code reached");
}
