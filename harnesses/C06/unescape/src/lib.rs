//! C06 — string-escape decoding shared by both evaluator parsers (`jrsonnet-ir/src/unescape.rs`),
//! extracted verbatim; the output `String` is a fixed-capacity accumulator.
#![allow(unused, dead_code, clippy::all, non_local_definitions)]
//@include ../../../../prelude/generic_error.in
mod prelude;
pub mod unescape {
    use std::str::Chars;
    pub type String = crate::prelude::fixed::FixedString<16>;
    //@extract crates/jrsonnet-ir/src/unescape.rs :: fn decode_unicode
    //@extract crates/jrsonnet-ir/src/unescape.rs :: fn unescape
}
#[cfg(kani)]
mod harnesses;
