//! C02 / C13 / C16 — the object layer walks of `obj/mod.rs` (`get_idx_uncached`,
//! `field_visibility_idx`, `has_field_include_hidden_idx`, `fields_visibility`, `fields_ex`, `len`)
//! and the per-layer answers of `OopObject` (`obj/oop.rs`) and `OmitFieldsCore`, extracted verbatim.
#![allow(unused, dead_code, clippy::all, non_local_definitions)]
//@include ../../../../prelude/bail.in
mod prelude;

pub mod error {
    #[derive(Debug, Clone, PartialEq)]
    pub enum ErrorKind {
        InfiniteRecursionDetected,
        NoSuperFound,
        RuntimeError(&'static str),
        Other,
    }
    pub use ErrorKind::*;
    #[derive(Debug, Clone, PartialEq)]
    pub struct Error(pub ErrorKind);
    impl From<ErrorKind> for Error {
        fn from(k: ErrorKind) -> Self {
            Error(k)
        }
    }
    impl From<crate::prelude::num::ConvertNumValueError> for Error {
        fn from(_: crate::prelude::num::ConvertNumValueError) -> Self {
            Error(ErrorKind::Other)
        }
    }
    pub type Result<T, E = Error> = core::result::Result<T, E>;
}

pub mod standins;

pub mod obj {
    use crate::error::{ErrorKind::*, Result};
    use crate::prelude::{Acyclic, Trace};
    use crate::standins::*;
    use std::{any::Any, cmp::Reverse, fmt::{self, Debug}, num::Saturating, ops::ControlFlow, rc::Rc};
    use std::cell::{Cell, RefCell};

    /// scratch vectors inside the extracted walks (`add_stack`, the result of `fields_ex`)
    pub type Vec<T> = crate::prelude::fixed::FixedVec<T, 6>;

    //@extract crates/jrsonnet-ir/src/expr.rs :: enum Visibility
    //@extract crates/jrsonnet-ir/src/expr.rs :: impl Visibility
    //@extract crates/jrsonnet-evaluator/src/obj/mod.rs :: mod ordering || s/use jrsonnet_gcmodule::Trace;//1
    use ordering::{FieldIndex, SuperDepth};
    //@extract crates/jrsonnet-evaluator/src/obj/mod.rs :: struct FieldSortKey
    //@extract crates/jrsonnet-evaluator/src/obj/mod.rs :: impl FieldSortKey
    //@extract crates/jrsonnet-evaluator/src/obj/mod.rs :: struct ObjFieldFlags
    //@extract crates/jrsonnet-evaluator/src/obj/mod.rs :: impl ObjFieldFlags || s/\tfn new\(/\tpub fn new(/1
    //@extract crates/jrsonnet-evaluator/src/obj/mod.rs :: impl Debug for ObjFieldFlags
    //@extract crates/jrsonnet-evaluator/src/obj/mod.rs :: type EnumFieldsHandler
    //@extract crates/jrsonnet-evaluator/src/obj/mod.rs :: enum EnumFields
    //@extract crates/jrsonnet-evaluator/src/obj/mod.rs :: enum GetFor
    //@extract crates/jrsonnet-evaluator/src/obj/mod.rs :: enum FieldVisibility
    //@extract crates/jrsonnet-evaluator/src/obj/mod.rs :: enum HasFieldIncludeHidden
    //@extract crates/jrsonnet-evaluator/src/obj/mod.rs :: type Skip
    //@extract crates/jrsonnet-evaluator/src/obj/mod.rs :: trait ObjectCore
    //@extract crates/jrsonnet-evaluator/src/obj/mod.rs :: struct CoreIdx || s/\tidx: usize/\tpub idx: usize/1 || s/^struct CoreIdx/pub struct CoreIdx/1
    //@extract crates/jrsonnet-evaluator/src/obj/mod.rs :: struct SupThis || s/\tsup: CoreIdx/\tpub sup: CoreIdx/1 || s/\tthis: ObjValue/\tpub this: ObjValue/1
    //@extract crates/jrsonnet-evaluator/src/obj/mod.rs :: struct OmitFieldsCore || s/^struct OmitFieldsCore/pub struct OmitFieldsCore/1 || s/\tomit:/\tpub omit:/1 || s/\tprev_layers:/\tpub prev_layers:/1
    //@extract crates/jrsonnet-evaluator/src/obj/mod.rs :: impl ObjectCore for OmitFieldsCore
    //@extract crates/jrsonnet-evaluator/src/obj/mod.rs :: struct FieldVisibilityData
    //@extract crates/jrsonnet-evaluator/src/obj/mod.rs :: impl FieldVisibilityData

    /// `ObjMember` with the value thunk replaced by a token (member bodies are C01/C03)
    #[derive(Debug)]
    pub struct ObjMember {
        pub flags: ObjFieldFlags,
        pub original_index: FieldIndex,
        pub invoke: MaybeUnbound,
    }
    /// One `{ ... }` layer: the repo's `OopObject` with its map and without the assertion closure
    #[derive(Debug)]
    pub struct OopObject {
        pub this_entries: FxHashMap<IStr, ObjMember>,
        pub assertion: Option<CcObjectAssertion>,
    }
    //@extract crates/jrsonnet-evaluator/src/obj/oop.rs :: impl ObjectCore for OopObject

    /// stand-in for `Cc<dyn ObjectCore>`: the two layer kinds that `a + b`, `a { }` and
    /// `std.objectRemoveKey` produce
    #[derive(Debug)]
    pub enum Core {
        Oop(OopObject),
        Omit(OmitFieldsCore),
    }
    impl ObjectCore for Core {
        fn enum_fields_core(&self, d: &mut SuperDepth, h: &mut EnumFieldsHandler<'_>) -> bool {
            match self {
                Core::Oop(c) => c.enum_fields_core(d, h),
                Core::Omit(c) => c.enum_fields_core(d, h),
            }
        }
        fn has_field_include_hidden_core(&self, name: IStr) -> HasFieldIncludeHidden {
            match self {
                Core::Oop(c) => c.has_field_include_hidden_core(name),
                Core::Omit(c) => c.has_field_include_hidden_core(name),
            }
        }
        fn get_for_core(&self, key: IStr, st: SupThis, omit_only: bool) -> Result<GetFor> {
            match self {
                Core::Oop(c) => c.get_for_core(key, st, omit_only),
                Core::Omit(c) => c.get_for_core(key, st, omit_only),
            }
        }
        fn field_visibility_core(&self, field: IStr) -> FieldVisibility {
            match self {
                Core::Oop(c) => c.field_visibility_core(field),
                Core::Omit(c) => c.field_visibility_core(field),
            }
        }
        fn run_assertions_core(&self, st: SupThis) -> Result<()> {
            match self {
                Core::Oop(c) => c.run_assertions_core(st),
                Core::Omit(c) => c.run_assertions_core(st),
            }
        }
    }
    #[derive(Debug)]
    pub struct CcObjectCore(pub Core);
    #[derive(Debug)]
    pub struct ObjValueInner {
        pub cores: std::vec::Vec<CcObjectCore>,
    }
    #[derive(Debug, Clone)]
    pub struct ObjValue(pub Rc<ObjValueInner>);
    impl PartialEq for ObjValue {
        fn eq(&self, o: &Self) -> bool {
            Rc::ptr_eq(&self.0, &o.0)
        }
    }
    impl Eq for ObjValue {}
    impl std::hash::Hash for ObjValue {
        fn hash<H: std::hash::Hasher>(&self, h: &mut H) {
            h.write_usize(Rc::as_ptr(&self.0) as usize);
        }
    }
    impl ObjValue {
        /// assertions are scheduled by the real `run_assertions` (out of scope): none here
        pub fn run_assertions(&self) -> Result<()> {
            Ok(())
        }
        //@extract crates/jrsonnet-evaluator/src/obj/mod.rs :: fn ObjValue::len
        //@extract crates/jrsonnet-evaluator/src/obj/mod.rs :: fn ObjValue::has_field_include_hidden
        //@extract crates/jrsonnet-evaluator/src/obj/mod.rs :: fn ObjValue::has_field_include_hidden_idx || s/\tfn has_field_include_hidden_idx/\tpub fn has_field_include_hidden_idx/1
        //@extract crates/jrsonnet-evaluator/src/obj/mod.rs :: fn ObjValue::has_field
        //@extract crates/jrsonnet-evaluator/src/obj/mod.rs :: fn ObjValue::has_field_ex
        //@extract crates/jrsonnet-evaluator/src/obj/mod.rs :: fn ObjValue::get_idx_uncached || s/\tfn get_idx_uncached/\tpub fn get_idx_uncached/1
        //@extract crates/jrsonnet-evaluator/src/obj/mod.rs :: fn ObjValue::field_visibility || s/\tfn field_visibility/\tpub fn field_visibility/1
        //@extract crates/jrsonnet-evaluator/src/obj/mod.rs :: fn ObjValue::field_visibility_idx || s/\tfn field_visibility_idx/\tpub fn field_visibility_idx/1
        //@extract crates/jrsonnet-evaluator/src/obj/mod.rs :: fn ObjValue::fields_visibility
        //@extract crates/jrsonnet-evaluator/src/obj/mod.rs :: fn ObjValue::fields_ex
    }
}
#[cfg(kani)]
mod harnesses;
