//! C02 harnesses: every chain of L <= 3 layers over two field names, each layer either an object
//! literal layer (per name: absent or member with visibility in {:, ::, :::} and `+` flag) or a
//! std.objectRemoveKey layer (omit set, prev_layers <= its index), read through every `super` depth.
use crate::obj::*;
use crate::standins::*;
// explicit imports win over the glob: `Vec`/`String` are std's here, `FVec` is the accumulator alias
use std::string::String;
use std::vec::Vec;
type FVec<T> = crate::obj::Vec<T>;
use std::num::Saturating;
use std::rc::Rc;

#[derive(Clone, Copy)]
struct MemberSpec {
    present: bool,
    vis: u8, // 0 normal, 1 hidden, 2 unhide
    add: bool,
}
#[derive(Clone, Copy)]
struct LayerSpec {
    is_omit: bool,
    omit: [bool; 2],
    prev: usize,
    m: [MemberSpec; 2],
}
fn any_member() -> MemberSpec {
    let vis: u8 = kani::any();
    kani::assume(vis < 3);
    MemberSpec { present: kani::any(), vis, add: kani::any() }
}
fn any_layer(index: usize) -> LayerSpec {
    let prev: usize = kani::any();
    kani::assume(prev <= index);
    let l = LayerSpec { is_omit: kani::any(), omit: [kani::any(), kani::any()], prev, m: [any_member(), any_member()] };
    // an omit layer names at least one field (objectRemoveKey always does)
    kani::assume(!l.is_omit || l.omit[0] || l.omit[1]);
    l
}
fn vis_of(v: u8) -> Visibility {
    match v {
        0 => Visibility::Normal,
        1 => Visibility::Hidden,
        _ => Visibility::Unhide,
    }
}
fn build(specs: &[LayerSpec]) -> ObjValue {
    let mut cores = std::vec::Vec::with_capacity(specs.len());
    let mut i = 0;
    while i < specs.len() {
        let s = &specs[i];
        if s.is_omit {
            cores.push(CcObjectCore(Core::Omit(OmitFieldsCore {
                omit: FxHashSet { items: [if s.omit[0] { Some(IStr(0)) } else { None }, if s.omit[1] { Some(IStr(1)) } else { None }], flip: kani::any() },
                prev_layers: s.prev,
            })));
        } else {
            let mk = |n: usize| {
                if s.m[n].present {
                    Some((IStr(n as u8), ObjMember { flags: ObjFieldFlags::new(s.m[n].add, vis_of(s.m[n].vis)), original_index: Default::default(), invoke: MaybeUnbound(i as u8 + 1) }))
                } else {
                    None
                }
            };
            // slot order inside the layer's map is arbitrary as well
            let swap: bool = kani::any();
            let slots = if swap { [mk(1), mk(0)] } else { [mk(0), mk(1)] };
            cores.push(CcObjectCore(Core::Oop(OopObject { this_entries: FxHashMap { slots, flip: kani::any() }, assertion: None })));
        }
        i += 1;
    }
    ObjValue(Rc::new(ObjValueInner { cores }))
}

// ---- reference object model -----------------------------------------------------------------------
fn masked(specs: &[LayerSpec], name: usize, i: usize, idx: usize) -> bool {
    let mut j = i + 1;
    let mut m = false;
    while j < specs.len() {
        if j < idx && specs[j].is_omit && specs[j].omit[name] && i + specs[j].prev >= j {
            m = true;
        }
        j += 1;
    }
    m
}
fn defines(specs: &[LayerSpec], name: usize, i: usize, idx: usize) -> bool {
    i < idx && !specs[i].is_omit && specs[i].m[name].present && !masked(specs, name, i, idx)
}
/// value of `name` seen from `idx`: concatenation (left to right) of the tokens of the right-most
/// run of defining layers that ends with the right-most one and extends left while layers are `+:`
fn ref_get(specs: &[LayerSpec], name: usize, idx: usize) -> Option<Val> {
    let mut chain = [0u8; 3];
    let mut n = 0;
    let mut open = true; // still extending to the left
    let mut i = specs.len();
    while i > 0 {
        i -= 1;
        if open && defines(specs, name, i, idx) {
            chain[n] = i as u8 + 1;
            n += 1;
            if !specs[i].m[name].add {
                open = false;
            }
        }
    }
    if n == 0 {
        return None;
    }
    // chain holds right-most first: fold left-to-right means reversing it
    let mut code: u16 = 0;
    let mut k = n;
    while k > 0 {
        k -= 1;
        code = (code << 2) | chain[k] as u16;
    }
    Some(Val { code, len: n as u8, nested: false })
}
fn ref_vis(specs: &[LayerSpec], name: usize, idx: usize) -> Option<Visibility> {
    let mut exists = false;
    let mut i = specs.len();
    while i > 0 {
        i -= 1;
        if defines(specs, name, i, idx) {
            match specs[i].m[name].vis {
                1 => return Some(Visibility::Hidden),
                2 => return Some(Visibility::Unhide),
                _ => exists = true,
            }
        }
    }
    if exists {
        Some(Visibility::Normal)
    } else {
        None
    }
}
#[cfg(verif_playback)]
fn jsonnet_chain(specs: &[LayerSpec]) -> String {
    // a Jsonnet expression building the same chain: the token of the last layer becomes a one-character string,
    // the tokens of the layers below it numbers, so that `+` is not associative in the replay either
    // ((1 + 2) + "3" = "33", 1 + (2 + "3") = "123")
    let names = ["f", "g"];
    let mut parts: Vec<String> = Vec::new();
    let mut acc = String::new();
    for (i, s) in specs.iter().enumerate() {
        if s.is_omit {
            // objectRemoveKey applies to everything built so far only when prev == i
            let mut e = if acc.is_empty() { "{}".to_string() } else { acc.clone() };
            for n in 0..2 {
                if s.omit[n] {
                    e = format!("std.objectRemoveKey({}, \"{}\")", e, names[n]);
                }
            }
            acc = e;
        } else {
            let mut fields = Vec::new();
            for n in 0..2 {
                if s.m[n].present {
                    let colon = match s.m[n].vis { 0 => ":", 1 => "::", _ => ":::" };
                    let val = if i + 1 == specs.len() { format!("\"{}\"", i + 1) } else { format!("{}", i + 1) };
                    fields.push(format!("{}{}{} {}", names[n], if s.m[n].add { "+" } else { "" }, colon, val));
                }
            }
            let lit = format!("{{{}}}", fields.join(", "));
            acc = if acc.is_empty() { lit } else { format!("({} + {})", acc, lit) };
        }
    }
    acc
}

macro_rules! chain_harnesses {
    ($get:ident, $vis:ident, $fields:ident, $l:literal) => {
        #[kani::proof]
        #[kani::unwind(7)]
        pub fn $get() {
            let mut specs = [any_layer(0); $l];
            let mut i = 1;
            while i < $l {
                specs[i] = any_layer(i);
                i += 1;
            }
            let obj = build(&specs);
            let name: u8 = kani::any();
            kani::assume(name < 2);
            let idx: usize = kani::any();
            kani::assume(idx <= $l);
            let want = ref_get(&specs, name as usize, idx);
            #[cfg(verif_playback)]
            {
                let simple = specs.iter().enumerate().all(|(i, s)| !s.is_omit || s.prev == i);
                println!("REPLAY-INPUT: layers={} name={} idx={} want={:?} chain={}", $l, name, idx, want, jsonnet_chain(&specs));
                if simple && idx == $l {
                    let n = ["f", "g"][name as usize];
                    println!("REPLAY-JSONNET: local o = {}; if std.objectHasAll(o, \"{}\") then o.{} else \"absent\"", jsonnet_chain(&specs), n, n);
                    match want {
                        Some(v) => {
                            // left-to-right fold of the replay values: numbers add, anything + string concatenates
                            let mut num: Option<u32> = None;
                            let mut s = String::new();
                            let mut first = true;
                            for k in (0..v.len).rev() {
                                let tok = ((v.code >> (2 * k)) & 3) as u32;
                                let is_str = tok as usize == $l;
                                if first {
                                    if is_str { s = tok.to_string(); } else { num = Some(tok); }
                                    first = false;
                                } else if let (Some(a), false) = (num, is_str) {
                                    num = Some(a + tok);
                                } else {
                                    if let Some(a) = num.take() { s = a.to_string(); }
                                    s.push_str(&tok.to_string());
                                }
                            }
                            match num {
                                Some(a) => println!("REPLAY-EXPECT: value {}", a),
                                None => println!("REPLAY-EXPECT: value \"{}\"", s),
                            }
                        }
                        None => println!("REPLAY-EXPECT: value \"absent\""),
                    }
                }
            }
            let got = obj.get_idx_uncached(IStr(name), CoreIdx { idx });
            assert!(matches!(&got, Ok(g) if *g == want), "C02.get right-most defining layer wins; +: layers fold with the inherited value left to right; omitted layers are invisible");
            let has = obj.has_field_include_hidden_idx(IStr(name), CoreIdx { idx });
            assert!(has == want.is_some(), "C02.in_super `\"f\" in super` / objectHasAll agrees with the read");
            kani::cover!(matches!(want, Some(v) if v.len == $l), "fold over every layer reached");
            kani::cover!($l == 1 || (want.is_none() && specs[0].m[name as usize].present && !specs[0].is_omit), "field hidden by a removed key reached");
            kani::cover!($l == 1 || (idx < $l && want.is_some()), "super lookup reached");
        }
        #[kani::proof]
        #[kani::unwind(7)]
        pub fn $vis() {
            let mut specs = [any_layer(0); $l];
            let mut i = 1;
            while i < $l {
                specs[i] = any_layer(i);
                i += 1;
            }
            let obj = build(&specs);
            let name: u8 = kani::any();
            kani::assume(name < 2);
            let idx: usize = kani::any();
            kani::assume(idx <= $l);
            let want = ref_vis(&specs, name as usize, idx);
            #[cfg(verif_playback)]
            {
                let simple = specs.iter().enumerate().all(|(i, s)| !s.is_omit || s.prev == i);
                println!("REPLAY-INPUT: layers={} name={} idx={} want={:?} chain={}", $l, name, idx, want, jsonnet_chain(&specs));
                if simple && idx == $l {
                    let n = ["f", "g"][name as usize];
                    println!("REPLAY-JSONNET: local o = {}; [std.objectHas(o, \"{}\"), std.objectHasAll(o, \"{}\")]", jsonnet_chain(&specs), n, n);
                    println!("REPLAY-EXPECT: value [{}, {}]", matches!(want, Some(Visibility::Normal | Visibility::Unhide)), want.is_some());
                }
            }
            let got = obj.field_visibility_idx(IStr(name), CoreIdx { idx });
            assert!(got == want, "C02.visibility right-most :: or ::: decides, : inherits");
            if idx == $l {
                assert!(obj.has_field(IStr(name)) == matches!(want, Some(Visibility::Normal | Visibility::Unhide)), "C02.has_field objectHas agrees with the visibility");
                assert!(obj.has_field_ex(IStr(name), true) == want.is_some(), "C02.has_field_ex objectHasAll agrees with existence");
            }
            kani::cover!(want == Some(Visibility::Unhide), "unhidden field reached");
            kani::cover!(want == Some(Visibility::Hidden) && idx == $l, "hidden field reached");
        }
        #[kani::proof]
        #[kani::unwind(7)]
        pub fn $fields() {
            let mut specs = [any_layer(0); $l];
            let mut i = 1;
            while i < $l {
                specs[i] = any_layer(i);
                i += 1;
            }
            let obj = build(&specs);
            let vf = ref_vis(&specs, 0, $l);
            let vg = ref_vis(&specs, 1, $l);
            let visible = |v: Option<Visibility>| matches!(v, Some(Visibility::Normal | Visibility::Unhide));
            #[cfg(verif_playback)]
            {
                let simple = specs.iter().enumerate().all(|(i, s)| !s.is_omit || s.prev == i);
                println!("REPLAY-INPUT: layers={} want f={:?} g={:?} chain={}", $l, vf, vg, jsonnet_chain(&specs));
                if simple {
                    let list = |a: bool, b: bool| { let mut v = Vec::new(); if a { v.push("\"f\""); } if b { v.push("\"g\""); } format!("[{}]", v.join(", ")) };
                    println!("REPLAY-JSONNET: local o = {}; [std.objectFields(o), std.objectFieldsAll(o), std.length(o)]", jsonnet_chain(&specs));
                    println!("REPLAY-EXPECT: value [{}, {}, {}]", list(visible(vf), visible(vg)), list(vf.is_some(), vg.is_some()), visible(vf) as u8 + visible(vg) as u8);
                }
            }
            let vis_list = obj.fields_ex(false);
            let all_list = obj.fields_ex(true);
            let expect = |list: &FVec<IStr>, f: bool, g: bool, lbl: &str| {
                let n = f as usize + g as usize;
                assert!(list.len() == n, "C13.fields.count number of listed field names");
                if f {
                    assert!(list[0] == IStr(0), "C13.fields.order names are listed in ascending order, each once");
                }
                if g {
                    assert!(list[n - 1] == IStr(1), "C13.fields.order names are listed in ascending order, each once");
                }
            };
            expect(&vis_list, visible(vf), visible(vg), "visible");
            expect(&all_list, vf.is_some(), vg.is_some(), "all");
            assert!(obj.len() == visible(vf) as usize + visible(vg) as usize, "C13.length std.length(obj) counts the visible fields");
            kani::cover!(visible(vf) && visible(vg), "two visible fields reached");
            kani::cover!(vf.is_some() && !visible(vf), "hidden field reached");
            kani::cover!($l == 1 || (vf.is_none() && specs[0].m[0].present && !specs[0].is_omit), "removed field reached");
        }
    };
}
//@harness name=chain1_get tier=quick timeout=600 unwind=7 desc="1 layer: read + `in super`" bounds="L=1, 2 names, every member kind, every super depth"
//@harness name=chain1_visibility tier=quick timeout=600 unwind=7 desc="1 layer: visibility, objectHas/objectHasAll" bounds="L=1"
//@harness name=chain1_fields tier=quick timeout=600 unwind=7 desc="1 layer: objectFields/objectFieldsAll/length, any hash iteration order" bounds="L=1"
chain_harnesses!(chain1_get, chain1_visibility, chain1_fields, 1);
//@harness name=chain2_get tier=quick timeout=900 unwind=7 desc="2 layers: read + `in super` for every chain of literal/removed-key layers" bounds="L=2, 2 names, every member kind, omit prev_layers <= index, every super depth"
//@harness name=chain2_visibility tier=quick timeout=900 unwind=7 desc="2 layers: visibility merging" bounds="L=2"
//@harness name=chain2_fields tier=quick timeout=900 unwind=7 desc="2 layers: field lists independent of hash iteration order, ascending, hidden filtered" bounds="L=2"
chain_harnesses!(chain2_get, chain2_visibility, chain2_fields, 2);
//@harness name=chain3_get tier=quick timeout=1200 unwind=7 desc="3 layers: read + `in super`" bounds="L=3, 2 names, every member kind, omit prev_layers <= index, every super depth"
//@harness name=chain3_visibility tier=quick timeout=1200 unwind=7 desc="3 layers: visibility merging" bounds="L=3"
//@harness name=chain3_fields tier=quick timeout=1200 unwind=7 desc="3 layers: field lists" bounds="L=3"
chain_harnesses!(chain3_get, chain3_visibility, chain3_fields, 3);
