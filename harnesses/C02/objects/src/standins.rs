//! Stand-ins for the object walks: field names are two tokens, values are concatenation traces,
//! hash maps are two-slot association lists iterated in a *symbolic* order (C16).
use crate::error::Result;
use std::cmp::Ordering;

/// Interned field name: 0 = "f", 1 = "g". Ordering = string ordering of the names.
#[derive(Clone, Copy, Debug, PartialEq, Eq, PartialOrd, Ord, Hash)]
pub struct IStr(pub u8);

/// A value is the trace of the `+` fold that produced it: up to three 2-bit layer tokens, most
/// significant first. `evaluate_add_op(a, b)` concatenates, so fold order and dropped operands are visible.
/// Concatenation alone is associative while Jsonnet's `+` is not ((1 + 2) + "x" = "3x", 1 + (2 + "x") = "12x"):
/// `nested` records that some `+` received an already combined value on its *right*, which the prescribed
/// left-to-right fold ((base + l2) + l3) never does.
#[derive(Clone, Copy, Debug, PartialEq, Eq)]
pub struct Val {
    pub code: u16,
    pub len: u8,
    pub nested: bool,
}
impl Val {
    pub fn token(t: u8) -> Self {
        Val { code: t as u16, len: 1, nested: false }
    }
}
pub fn evaluate_add_op(a: &Val, b: &Val) -> Result<Val> {
    Ok(Val { code: (a.code << (2 * b.len as u16)) | b.code, len: a.len + b.len, nested: a.nested || b.nested || b.len > 1 })
}
/// member body: evaluates to its token whatever `self`/`super` are (bindings are out of scope)
#[derive(Debug, Clone, Copy)]
pub struct MaybeUnbound(pub u8);
impl MaybeUnbound {
    pub fn evaluate(&self, _sup_this: crate::obj::SupThis) -> Result<Val> {
        Ok(Val::token(self.0))
    }
}
#[derive(Debug)]
pub struct CcObjectAssertion(pub AssertStub);
#[derive(Debug)]
pub struct AssertStub;
impl AssertStub {
    pub fn run(&self, _sup_this: crate::obj::SupThis) -> Result<()> {
        Ok(())
    }
}

// ---- two-slot map / set with symbolic iteration order ------------------------------------------
#[derive(Debug)]
pub struct FxHashMap<K, V> {
    pub slots: [Option<(K, V)>; 2],
    /// iteration starts at slot 1 when set: any order a real hash map could produce
    pub flip: bool,
}
fn any_flip() -> bool {
    #[cfg(kani)]
    {
        kani::any()
    }
    #[cfg(not(kani))]
    {
        false
    }
}
impl<K: PartialEq + Copy, V> Default for FxHashMap<K, V> {
    fn default() -> Self {
        FxHashMap { slots: [None, None], flip: any_flip() }
    }
}
pub struct Entry<'a, K, V> {
    map: &'a mut FxHashMap<K, V>,
    key: K,
}
impl<'a, K: PartialEq + Copy, V> Entry<'a, K, V> {
    pub fn or_insert_with<F: FnOnce() -> V>(self, f: F) -> &'a mut V {
        let mut at = 2;
        if let Some((k, _)) = &self.map.slots[0] {
            if *k == self.key {
                at = 0;
            }
        }
        if at == 2 {
            if let Some((k, _)) = &self.map.slots[1] {
                if *k == self.key {
                    at = 1;
                }
            }
        }
        if at == 2 {
            at = if self.map.slots[0].is_none() { 0 } else { 1 };
            assert!(self.map.slots[at].is_none(), "harness: more than two field names");
            self.map.slots[at] = Some((self.key, f()));
        }
        &mut self.map.slots[at].as_mut().unwrap().1
    }
}
impl<K: PartialEq + Copy, V> FxHashMap<K, V> {
    pub fn insert(&mut self, k: K, v: V) {
        let e = self.entry(k);
        let mut v = Some(v);
        let slot = e.or_insert_with(|| v.take().unwrap());
        if let Some(v) = v {
            *slot = v;
        }
    }
    pub fn entry(&mut self, key: K) -> Entry<'_, K, V> {
        Entry { map: self, key }
    }
    pub fn get(&self, k: &K) -> Option<&V> {
        if let Some((kk, v)) = &self.slots[0] {
            if kk == k {
                return Some(v);
            }
        }
        if let Some((kk, v)) = &self.slots[1] {
            if kk == k {
                return Some(v);
            }
        }
        None
    }
    pub fn contains_key(&self, k: &K) -> bool {
        self.get(k).is_some()
    }
    pub fn retain<F: FnMut(&K, &mut V) -> bool>(&mut self, mut f: F) {
        let keep0 = match &mut self.slots[0] {
            Some((k, v)) => f(k, v),
            None => true,
        };
        if !keep0 {
            self.slots[0] = None;
        }
        let keep1 = match &mut self.slots[1] {
            Some((k, v)) => f(k, v),
            None => true,
        };
        if !keep1 {
            self.slots[1] = None;
        }
    }
    fn order(&self) -> [usize; 2] {
        if self.flip {
            [1, 0]
        } else {
            [0, 1]
        }
    }
    pub fn values(&self) -> ValuesIter<'_, K, V> {
        ValuesIter(MapRefIter { m: self, order: self.order(), at: 0 })
    }
}
pub struct ValuesIter<'a, K, V>(MapRefIter<'a, K, V>);
impl<'a, K, V> Iterator for ValuesIter<'a, K, V> {
    type Item = &'a V;
    fn next(&mut self) -> Option<&'a V> {
        self.0.next().map(|(_, v)| v)
    }
}
pub struct MapRefIter<'a, K, V> {
    m: &'a FxHashMap<K, V>,
    order: [usize; 2],
    at: usize,
}
impl<'a, K, V> Iterator for MapRefIter<'a, K, V> {
    type Item = (&'a K, &'a V);
    // straight-line (no loop): every loop inside an iterator adaptor chain multiplies CBMC's unwinding work
    fn next(&mut self) -> Option<Self::Item> {
        if self.at == 0 {
            self.at = 1;
            if let Some((k, v)) = &self.m.slots[self.order[0]] {
                return Some((k, v));
            }
        }
        if self.at == 1 {
            self.at = 2;
            if let Some((k, v)) = &self.m.slots[self.order[1]] {
                return Some((k, v));
            }
        }
        None
    }
}
impl<'a, K: PartialEq + Copy, V> IntoIterator for &'a FxHashMap<K, V> {
    type Item = (&'a K, &'a V);
    type IntoIter = MapRefIter<'a, K, V>;
    fn into_iter(self) -> Self::IntoIter {
        MapRefIter { m: self, order: self.order(), at: 0 }
    }
}
pub struct MapIntoIter<K, V> {
    slots: [Option<(K, V)>; 2],
    order: [usize; 2],
    at: usize,
}
impl<K, V> Iterator for MapIntoIter<K, V> {
    type Item = (K, V);
    fn next(&mut self) -> Option<(K, V)> {
        if self.at == 0 {
            self.at = 1;
            if let Some(x) = self.slots[self.order[0]].take() {
                return Some(x);
            }
        }
        if self.at == 1 {
            self.at = 2;
            if let Some(x) = self.slots[self.order[1]].take() {
                return Some(x);
            }
        }
        None
    }
}
impl<K: PartialEq + Copy, V> IntoIterator for FxHashMap<K, V> {
    type Item = (K, V);
    type IntoIter = MapIntoIter<K, V>;
    fn into_iter(self) -> Self::IntoIter {
        let order = self.order();
        MapIntoIter { slots: self.slots, order, at: 0 }
    }
}
#[derive(Debug)]
pub struct FxHashSet<K> {
    pub items: [Option<K>; 2],
    pub flip: bool,
}
impl<K: PartialEq + Copy> FxHashSet<K> {
    pub fn contains(&self, k: &K) -> bool {
        self.items[0] == Some(*k) || self.items[1] == Some(*k)
    }
}
pub struct SetIter<'a, K> {
    s: &'a FxHashSet<K>,
    at: usize,
}
impl<'a, K> Iterator for SetIter<'a, K> {
    type Item = &'a K;
    fn next(&mut self) -> Option<&'a K> {
        let (i0, i1) = if self.s.flip { (1, 0) } else { (0, 1) };
        if self.at == 0 {
            self.at = 1;
            if let Some(k) = &self.s.items[i0] {
                return Some(k);
            }
        }
        if self.at == 1 {
            self.at = 2;
            if let Some(k) = &self.s.items[i1] {
                return Some(k);
            }
        }
        None
    }
}
impl<'a, K> IntoIterator for &'a FxHashSet<K> {
    type Item = &'a K;
    type IntoIter = SetIter<'a, K>;
    fn into_iter(self) -> Self::IntoIter {
        SetIter { s: self, at: 0 }
    }
}
