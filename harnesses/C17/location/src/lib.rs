//! C17 — `jrsonnet-ir/src/location.rs`: byte offset -> line/column mapping, extracted verbatim; the
//! two scratch vectors are fixed-capacity stand-ins.
#![allow(unused, dead_code, clippy::all, non_local_definitions)]
//@include ../../../../prelude/generic_error.in
mod prelude;
pub mod location {
    pub type Vec<T> = crate::prelude::fixed::FixedVec<T, 4>;
    macro_rules! vec {
        () => { Vec::new() };
    }
    //@extract crates/jrsonnet-ir/src/location.rs :: struct CodeLocation
    //@extract crates/jrsonnet-ir/src/location.rs :: fn location_to_offset
    //@extract crates/jrsonnet-ir/src/location.rs :: fn offset_to_location
}
#[cfg(kani)]
mod harnesses;
