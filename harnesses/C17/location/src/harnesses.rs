use crate::location::*;
// explicit imports win over the glob: `Vec`/`String` here are std's
use std::string::String;
use std::vec::Vec;
use crate::prelude::symstr::SymStr;

const N: usize = 3;

/// expected (line, byte offset of the line start, prefix is ASCII)
fn reference(b: &[u8; N], n: usize, off: usize) -> (usize, usize, bool) {
    let mut line = 1;
    let mut start = 0;
    let mut ascii = true;
    let mut i = 0;
    while i < N {
        if i < off && i < n {
            if b[i] == b'\n' {
                line += 1;
                start = i + 1;
                ascii = true;
            } else if b[i] >= 0x80 {
                ascii = false;
            }
        }
        i += 1;
    }
    (line, start, ascii)
}

//@harness tier=quick timeout=900 desc="offset_to_location for one offset: the line is 1 + the number of newlines before the offset whatever non-ASCII text precedes it; the column is exact when the text before it on its line is ASCII" bounds="every well-formed UTF-8 text of exactly 3 bytes, every character-boundary offset <= len"
#[kani::proof]
#[kani::unwind(9)]
pub fn offset_to_location_one() {
    // concrete length: symbolic-length text makes every std iterator adaptor in the function branch on it
    let s = SymStr::<N>::any_utf8_len(N);
    let off: usize = kani::any();
    kani::assume(off <= s.n);
    // spans produced by the parsers lie on character boundaries
    kani::assume(off == s.n || (s.b[off] & 0xC0) != 0x80);
    let (line, start, ascii) = reference(&s.b, s.n, off);
    #[cfg(verif_playback)]
    {
        println!("REPLAY-INPUT: text={:?} offset={} expected line={} line_start={} ascii_prefix={}", s.as_str(), off, line, start, ascii);
        // language-level witness: the text inside a block comment in front of an `error` on its own line;
        // the reported location of the error statement must be line (newlines in the text + 2), column 1
        if !s.as_str().contains("*/") {
            let nl = s.bytes().iter().filter(|c| **c == b'\n').count();
            let mut src: Vec<u8> = b"/*".to_vec();
            src.extend_from_slice(s.bytes());
            src.extend_from_slice(b"*/\nerror \"x\"\n");
            let hex: String = src.iter().map(|b| format!("{:02x}", b)).collect();
            println!("REPLAY-SOURCEHEX: {}", hex);
            println!("REPLAY-EXPECTLOC: :{}:1-", nl + 2);
        }
    }
    let out = offset_to_location::<1>(s.as_str(), &[off as u32]);
    assert!(out[0].line == line, "C17.line line of an offset");
    if ascii {
        // the repository's convention (its own unit test, and trace/mod.rs printing `column - 1`):
        // column = characters since the line start + 2
        assert!(out[0].column == off - start + 2, "C17.column column of an offset whose line prefix is ASCII");
    }
    kani::cover!(line == 3, "third line reached");
    kani::cover!(!ascii && line == 2, "non-ASCII prefix on the second line reached");
    kani::cover!(off == s.n, "offset at the end of the text reached");
    kani::cover!(line == 2 && s.b[0] >= 0xC2, "multi-byte character on an earlier line reached");
}

//@harness tier=quick timeout=900 desc="offset_to_location for a (start, end) pair as used for spans: both lines exact" bounds="every well-formed UTF-8 text of exactly 3 bytes, two character-boundary offsets"
#[kani::proof]
#[kani::unwind(9)]
pub fn offset_to_location_pair() {
    let s = SymStr::<N>::any_utf8_len(N);
    let a: usize = kani::any();
    let b: usize = kani::any();
    // spans of constructs are non-empty (an empty span [x, x) leaves the second location unset: no parser
    // produces one, so it is a precondition here rather than a finding)
    kani::assume(a < b && b <= s.n);
    kani::assume(a == s.n || (s.b[a] & 0xC0) != 0x80);
    kani::assume(b == s.n || (s.b[b] & 0xC0) != 0x80);
    let (la, _, _) = reference(&s.b, s.n, a);
    let (lb, _, _) = reference(&s.b, s.n, b);
    #[cfg(verif_playback)]
    println!("REPLAY-INPUT: text={:?} offsets=({}, {}) expected lines=({}, {})", s.as_str(), a, b, la, lb);
    let out = offset_to_location::<2>(s.as_str(), &[a as u32, b as u32]);
    assert!(out[0].line == la, "C17.pair.line_start line of the span start");
    assert!(out[1].line == lb, "C17.pair.line_end line of the span end");
    kani::cover!(la != lb, "span across lines reached");
    kani::cover!(la == lb && b == s.n, "span ending at the end of the text reached");
}
