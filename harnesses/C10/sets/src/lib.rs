//! C10 — the hand-written merge / binary-search loops of `jrsonnet-stdlib/src/sets.rs`, extracted
//! verbatim, over small symbolic sets.
#![allow(unused, dead_code, clippy::all, non_local_definitions, non_snake_case)]
//@include ../../../../prelude/generic_error.in
mod prelude;
pub mod standins {
    use crate::error::Result;
    use std::cmp::Ordering;
    pub const CAP: usize = 3;
    /// set elements are small integers; the comparison operator itself is C09's subject
    #[derive(Clone, Copy, Debug, PartialEq, Eq)]
    pub struct Val(pub i16);
    #[derive(Clone, Copy, Debug, PartialEq, Eq)]
    pub struct Thunk<T>(pub T);
    impl Thunk<Val> {
        pub fn evaluate(&self) -> Result<Val> {
            Ok(self.0)
        }
    }
    #[derive(Clone, Copy, Debug)]
    pub enum BinaryOpType {
        Lt,
    }
    pub fn evaluate_compare_op(a: &Val, b: &Val, _op: BinaryOpType) -> Result<Ordering> {
        Ok(a.0.cmp(&b.0))
    }
    /// key function: identity, or the monotone non-injective `x -> x >> 1` (two elements may share a key)
    #[derive(Clone, Copy, Debug, Default)]
    pub enum KeyF {
        #[default]
        Identity,
        Half,
    }
    impl KeyF {
        pub fn eval(&self, v: impl Into<Thunk<Val>>) -> Result<Val> {
            let v = v.into().0;
            Ok(match self {
                KeyF::Identity => v,
                KeyF::Half => Val(v.0 >> 1),
            })
        }
        pub fn key(&self, v: i16) -> i16 {
            match self {
                KeyF::Identity => v,
                KeyF::Half => v >> 1,
            }
        }
    }
    /// input arrays: up to CAP already evaluated elements held inline
    #[derive(Clone, Copy, Debug)]
    pub struct ArrValue {
        pub e: [i16; CAP],
        pub n: usize,
    }
    pub struct LazyIter {
        a: ArrValue,
        i: usize,
    }
    impl Iterator for LazyIter {
        type Item = Thunk<Val>;
        fn next(&mut self) -> Option<Thunk<Val>> {
            if self.i < self.a.n {
                self.i += 1;
                Some(Thunk(Val(self.a.e[self.i - 1])))
            } else {
                None
            }
        }
    }
    impl ArrValue {
        pub fn len(&self) -> usize {
            self.n
        }
        pub fn get_lazy(&self, i: usize) -> Option<Thunk<Val>> {
            if i < self.n {
                Some(Thunk(Val(self.e[i])))
            } else {
                None
            }
        }
        pub fn iter_lazy(&self) -> LazyIter {
            LazyIter { a: *self, i: 0 }
        }
    }
}
pub mod sets {
    use crate::error::Result;
    use crate::standins::{evaluate_compare_op, BinaryOpType, KeyF, Thunk, Val};
    use std::cmp::Ordering;
    /// result accumulator (prelude/fixed.rs)
    pub type Vec<T> = crate::prelude::fixed::FixedVec<T, 8>;
    /// result arrays keep the accumulated thunks
    #[derive(Debug, Clone)]
    pub struct ArrValue(pub Vec<Thunk<Val>>);
    impl ArrValue {
        pub fn lazy(v: Vec<Thunk<Val>>) -> Self {
            ArrValue(v)
        }
    }
    pub mod input {
        pub use crate::standins::ArrValue;
    }
    // the extracted functions take `ArrValue` inputs and return `ArrValue` results: inputs are the
    // inline stand-in, results the accumulator wrapper — the parameter type is renamed, nothing else
    //@extract crates/jrsonnet-stdlib/src/sets.rs :: fn builtin_set_member || s/arr: ArrValue/arr: input::ArrValue/1
    //@extract crates/jrsonnet-stdlib/src/sets.rs :: fn builtin_set_inter || s/a: ArrValue, b: ArrValue/a: input::ArrValue, b: input::ArrValue/1
    //@extract crates/jrsonnet-stdlib/src/sets.rs :: fn builtin_set_diff || s/a: ArrValue, b: ArrValue/a: input::ArrValue, b: input::ArrValue/1
    //@extract crates/jrsonnet-stdlib/src/sets.rs :: fn builtin_set_union || s/a: ArrValue, b: ArrValue/a: input::ArrValue, b: input::ArrValue/1
}
/// std.removeAt over *model arrays*: `slice` and `extended` of this stand-in implement the documented
/// semantics (the integer model that the C08 harnesses show the real views to be equal to), so this
/// checks the composition logic of the builtin — which index arguments it passes — for every `at`.
pub mod remove {
    use crate::error::Result;
    use std::num::NonZeroU32;
    pub const RCAP: usize = 4;
    #[derive(Clone, Copy, Debug)]
    pub struct ArrValue {
        pub e: [i16; RCAP],
        pub n: usize,
    }
    impl ArrValue {
        /// Python-style slice (negative indexes count from the end, clamped), step >= 1
        pub fn slice(self, index: Option<i32>, end: Option<i32>, step: Option<NonZeroU32>) -> Self {
            let len = self.n as i64;
            let norm = |p: Option<i32>, d: i64| match p {
                None => d,
                Some(v) if v < 0 => (len + v as i64).max(0),
                Some(v) => (v as i64).min(len),
            };
            let (f, t) = (norm(index, 0), norm(end, len));
            let st = step.map_or(1, |s| s.get() as i64);
            let mut out = ArrValue { e: [0; RCAP], n: 0 };
            let mut i = 0i64;
            while i < RCAP as i64 {
                if i >= f && i < t && (i - f) % st == 0 {
                    out.e[out.n] = self.e[i as usize];
                    out.n += 1;
                }
                i += 1;
            }
            out
        }
        pub fn extended(a: Self, b: Self) -> Self {
            let mut out = a;
            let mut i = 0;
            while i < RCAP {
                if i < b.n {
                    assert!(out.n < RCAP * 2, "harness: model array capacity");
                    if out.n < RCAP {
                        out.e[out.n] = b.e[i];
                    }
                    out.n += 1;
                }
                i += 1;
            }
            out
        }
    }
    //@extract crates/jrsonnet-stdlib/src/arrays.rs :: fn builtin_remove_at
}

#[cfg(kani)]
mod harnesses;
