//! C10 — the hand-written merge / binary-search loops of `jrsonnet-stdlib/src/sets.rs`, extracted
//! verbatim, over small symbolic sets.
#![allow(unused, dead_code, clippy::all, non_local_definitions, non_snake_case)]
//@include ../../../../prelude/generic_error.in
mod prelude;
pub mod standins {
    use crate::error::Result;
    use std::cmp::Ordering;
    pub const CAP: usize = 3;
    /// set elements are small integers; the comparison operator itself is C09's subject
    #[derive(Clone, Copy, Debug, PartialEq, Eq)]
    pub struct Val(pub i16);
    #[derive(Clone, Copy, Debug, PartialEq, Eq)]
    pub struct Thunk<T>(pub T);
    impl Thunk<Val> {
        pub fn evaluate(&self) -> Result<Val> {
            Ok(self.0)
        }
    }
    #[derive(Clone, Copy, Debug)]
    pub enum BinaryOpType {
        Lt,
    }
    pub fn evaluate_compare_op(a: &Val, b: &Val, _op: BinaryOpType) -> Result<Ordering> {
        Ok(a.0.cmp(&b.0))
    }
    /// key function: identity, or the monotone non-injective `x -> x >> 1` (two elements may share a key)
    #[derive(Clone, Copy, Debug, Default)]
    pub enum KeyF {
        #[default]
        Identity,
        Half,
    }
    impl KeyF {
        pub fn eval(&self, v: impl Into<Thunk<Val>>) -> Result<Val> {
            let v = v.into().0;
            Ok(match self {
                KeyF::Identity => v,
                KeyF::Half => Val(v.0 >> 1),
            })
        }
        pub fn key(&self, v: i16) -> i16 {
            match self {
                KeyF::Identity => v,
                KeyF::Half => v >> 1,
            }
        }
    }
    /// input arrays: up to CAP already evaluated elements held inline
    #[derive(Clone, Copy, Debug)]
    pub struct ArrValue {
        pub e: [i16; CAP],
        pub n: usize,
    }
    pub struct LazyIter {
        a: ArrValue,
        i: usize,
    }
    impl Iterator for LazyIter {
        type Item = Thunk<Val>;
        fn next(&mut self) -> Option<Thunk<Val>> {
            if self.i < self.a.n {
                self.i += 1;
                Some(Thunk(Val(self.a.e[self.i - 1])))
            } else {
                None
            }
        }
    }
    impl ArrValue {
        pub fn len(&self) -> usize {
            self.n
        }
        pub fn get_lazy(&self, i: usize) -> Option<Thunk<Val>> {
            if i < self.n {
                Some(Thunk(Val(self.e[i])))
            } else {
                None
            }
        }
        pub fn iter_lazy(&self) -> LazyIter {
            LazyIter { a: *self, i: 0 }
        }
    }
}
pub mod sets {
    use crate::error::Result;
    use crate::standins::{evaluate_compare_op, BinaryOpType, KeyF, Thunk, Val};
    use std::cmp::Ordering;
    /// result accumulator (prelude/fixed.rs)
    pub type Vec<T> = crate::prelude::fixed::FixedVec<T, 8>;
    /// result arrays keep the accumulated thunks
    #[derive(Debug, Clone)]
    pub struct ArrValue(pub Vec<Thunk<Val>>);
    impl ArrValue {
        pub fn lazy(v: Vec<Thunk<Val>>) -> Self {
            ArrValue(v)
        }
    }
    pub mod input {
        pub use crate::standins::ArrValue;
    }
    // the extracted functions take `ArrValue` inputs and return `ArrValue` results: inputs are the
    // inline stand-in, results the accumulator wrapper — the parameter type is renamed, nothing else
    //@extract crates/jrsonnet-stdlib/src/sets.rs :: fn builtin_set_member || s/arr: ArrValue/arr: input::ArrValue/1
    //@extract crates/jrsonnet-stdlib/src/sets.rs :: fn builtin_set_inter || s/a: ArrValue, b: ArrValue/a: input::ArrValue, b: input::ArrValue/1
    //@extract crates/jrsonnet-stdlib/src/sets.rs :: fn builtin_set_diff || s/a: ArrValue, b: ArrValue/a: input::ArrValue, b: input::ArrValue/1
    //@extract crates/jrsonnet-stdlib/src/sets.rs :: fn builtin_set_union || s/a: ArrValue, b: ArrValue/a: input::ArrValue, b: input::ArrValue/1
}
#[cfg(kani)]
mod harnesses;
