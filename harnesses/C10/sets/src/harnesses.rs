use crate::sets::*;
use crate::standins::{ArrValue as In, KeyF, Thunk, Val, CAP};
// explicit imports win over the glob (`crate::sets::Vec` is the fixed-capacity accumulator)
use std::string::String;
use std::vec::Vec;

fn any_keyf() -> KeyF {
    if kani::any() {
        KeyF::Identity
    } else {
        KeyF::Half
    }
}
/// a set: strictly ascending *keys* (the documented precondition of the std.set* functions)
fn any_set(k: &KeyF) -> In {
    let e: [i16; CAP] = kani::any();
    let n: usize = kani::any();
    kani::assume(n <= CAP);
    let mut i = 0;
    while i < CAP {
        kani::assume(e[i] >= 0 && e[i] <= 7);
        if i + 1 < CAP && i + 1 < n {
            kani::assume(k.key(e[i]) < k.key(e[i + 1]));
        }
        i += 1;
    }
    In { e, n }
}
fn has_key(s: &In, k: &KeyF, key: i16) -> bool {
    let mut i = 0;
    let mut f = false;
    while i < CAP {
        if i < s.n && k.key(s.e[i]) == key {
            f = true;
        }
        i += 1;
    }
    f
}
#[cfg(verif_playback)]
fn js(s: &In) -> String {
    let v: Vec<String> = s.e[..s.n].iter().map(|x| x.to_string()).collect();
    format!("[{}]", v.join(", "))
}
#[cfg(verif_playback)]
fn jk(k: &KeyF) -> &'static str {
    match k {
        KeyF::Identity => "function(x) x",
        KeyF::Half => "function(x) std.floor(x / 2)",
    }
}
fn check_result(out: &ArrValue, want: &[i16; 6], wn: usize) {
    assert!(out.0.len() == wn, "C10.set.count number of elements of the result set");
    let mut i = 0;
    while i < 6 {
        if i < wn && i < out.0.len() {
            assert!(out.0[i].0 .0 == want[i], "C10.set.elements elements of the result set, in order");
        }
        i += 1;
    }
}

//@harness tier=quick timeout=600 desc="std.setMember(x, s, keyF) is true exactly when some element of s has the key of x (binary search)" bounds="|s| <= 3, elements 0..=7, keyF identity or x>>1, x 0..=15"
#[kani::proof]
#[kani::unwind(6)]
pub fn set_member() {
    let k = any_keyf();
    let s = any_set(&k);
    let x: i16 = kani::any();
    kani::assume(x >= 0 && x <= 7);
    let want = has_key(&s, &k, k.key(x));
    #[cfg(verif_playback)]
    {
        println!("REPLAY-INPUT: x={} s={} keyF={:?}", x, js(&s), k);
        println!("REPLAY-JSONNET: std.setMember({}, {}, {})", x, js(&s), jk(&k));
        println!("REPLAY-EXPECT: value {}", want);
    }
    let r = builtin_set_member(Thunk(Val(x)), s, k);
    assert!(matches!(r, Ok(b) if b == want), "C10.setMember membership by key");
    kani::cover!(want && s.n == CAP, "member of a full set reached");
    kani::cover!(!want && s.n == CAP, "non-member of a full set reached");
}

macro_rules! set_op {
    ($name:ident, $f:ident, $js:literal, $keep_a:expr, $keyf:expr) => {
        #[kani::proof]
        #[kani::unwind(10)]
        pub fn $name() {
            // the key function is concrete per harness (halves the state space of the merge loops)
            let k: KeyF = $keyf;
            let a = any_set(&k);
            let b = any_set(&k);
            // reference: merge by key
            let mut want = [0i16; 6];
            let mut wn = 0;
            // walk keys 0..=7 ascending; at most one element per key and side
            let mut key = 0i16;
            while key <= 7 {
                let mut ea = None;
                let mut eb = None;
                let mut i = 0;
                while i < CAP {
                    if i < a.n && k.key(a.e[i]) == key {
                        ea = Some(a.e[i]);
                    }
                    if i < b.n && k.key(b.e[i]) == key {
                        eb = Some(b.e[i]);
                    }
                    i += 1;
                }
                let f: fn(Option<i16>, Option<i16>) -> Option<i16> = $keep_a;
                if let Some(v) = f(ea, eb) {
                    want[wn] = v;
                    wn += 1;
                }
                key += 1;
            }
            #[cfg(verif_playback)]
            {
                println!("REPLAY-INPUT: a={} b={} keyF={:?}", js(&a), js(&b), k);
                println!("REPLAY-JSONNET: std.{}({}, {}, {})", $js, js(&a), js(&b), jk(&k));
                let w: Vec<String> = want[..wn].iter().map(|x| x.to_string()).collect();
                println!("REPLAY-EXPECT: value [{}]", w.join(","));
            }
            let r = $f(a, b, k);
            assert!(r.is_ok(), "C10.set.ok set operation on two sets must succeed");
            check_result(&r.unwrap(), &want, wn);
            kani::cover!(wn >= 3, "result with three elements reached");
            kani::cover!(a.n == CAP && b.n == CAP, "two full sets reached");
            kani::cover!(matches!(k, KeyF::Identity) || (a.n > 0 && b.n > 0 && a.e[0] != b.e[0] && (a.e[0] >> 1) == (b.e[0] >> 1)), "different elements with the same key reached (key-function variant)");
        }
    };
}
//@harness name=set_union tier=quick timeout=1200 unwind=10 desc="std.setUnion: merge by key, ascending, duplicate-free, the element of `a` wins on equal keys; identity key" bounds="|a|,|b| <= 3, elements 0..=7"
set_op!(set_union, builtin_set_union, "setUnion", |ea, eb| ea.or(eb), KeyF::Identity);
//@harness name=set_union_keyf tier=quick timeout=1200 unwind=10 desc="std.setUnion: merge by key, ascending, duplicate-free, the element of `a` wins on equal keys; key function x -> x>>1 (different elements may share a key)" bounds="|a|,|b| <= 3, elements 0..=7"
set_op!(set_union_keyf, builtin_set_union, "setUnion", |ea, eb| ea.or(eb), KeyF::Half);
//@harness name=set_inter tier=quick timeout=1200 unwind=10 desc="std.setInter: the elements of `a` whose key occurs in `b`; identity key" bounds="|a|,|b| <= 3, elements 0..=7"
set_op!(set_inter, builtin_set_inter, "setInter", |ea, eb| if eb.is_some() { ea } else { None }, KeyF::Identity);
//@harness name=set_inter_keyf tier=quick timeout=1200 unwind=10 desc="std.setInter: the elements of `a` whose key occurs in `b`; key function x -> x>>1 (different elements may share a key)" bounds="|a|,|b| <= 3, elements 0..=7"
set_op!(set_inter_keyf, builtin_set_inter, "setInter", |ea, eb| if eb.is_some() { ea } else { None }, KeyF::Half);
//@harness name=set_diff tier=quick timeout=1200 unwind=10 desc="std.setDiff: the elements of `a` whose key does not occur in `b`; identity key" bounds="|a|,|b| <= 3, elements 0..=7"
set_op!(set_diff, builtin_set_diff, "setDiff", |ea, eb| if eb.is_none() { ea } else { None }, KeyF::Identity);
//@harness name=set_diff_keyf tier=quick timeout=1200 unwind=10 desc="std.setDiff: the elements of `a` whose key does not occur in `b`; key function x -> x>>1 (different elements may share a key)" bounds="|a|,|b| <= 3, elements 0..=7"
set_op!(set_diff_keyf, builtin_set_diff, "setDiff", |ea, eb| if eb.is_none() { ea } else { None }, KeyF::Half);

// ---------------------------------------------------------------------------------------------
// std.removeAt
// ---------------------------------------------------------------------------------------------
//@harness tier=quick timeout=600 desc="std.removeAt(arr, at) = [arr[i] for i != at] for every i32 `at`: an index outside 0..len leaves the array unchanged, no panic" bounds="arrays of <= 3 distinct elements, at: every i32; arrays are the slice/concatenation *model* (see lib.rs), the real views are C08"
#[kani::proof]
#[kani::unwind(6)]
pub fn remove_at() {
    use crate::remove::*;
    let n: usize = kani::any();
    kani::assume(n <= 3);
    let arr = ArrValue { e: [10, 11, 12, 0], n };
    let at: i32 = kani::any();
    #[cfg(verif_playback)]
    {
        let items: Vec<String> = (0..n).map(|i| (10 + i).to_string()).collect();
        let want: Vec<String> = (0..n).filter(|i| !(at >= 0 && *i == at as usize)).map(|i| (10 + i).to_string()).collect();
        println!("REPLAY-INPUT: n={} at={}", n, at);
        println!("REPLAY-JSONNET: std.removeAt([{}], {})", items.join(", "), at);
        println!("REPLAY-EXPECT: value [{}]", want.join(","));
        println!("REPLAY-ROLE: {}", if at < 0 { "C10.removeAt.negative_index" } else if at == i32::MAX { "C10.removeAt.index_i32_max" } else { "C10.removeAt.in_or_beyond_range" });
    }
    let r = builtin_remove_at(arr, at);
    assert!(r.is_ok(), "C10.removeAt.ok removeAt of an array never fails");
    let out = r.unwrap();
    let hit = at >= 0 && (at as usize) < n;
    assert!(out.n == if hit { n - 1 } else { n }, "C10.removeAt.len exactly the element at index `at` is removed (none when `at` is not an index)");
    let mut i = 0;
    while i < 3 {
        if i < out.n {
            let src = if hit && i >= at as usize { i + 1 } else { i };
            assert!(out.e[i] == 10 + src as i16, "C10.removeAt.elements the remaining elements keep their order");
        }
        i += 1;
    }
    kani::cover!(at < 0 && n == 3, "negative index reached");
    kani::cover!(hit && at == 1 && n == 3, "middle element removed reached");
    kani::cover!(at == i32::MAX, "i32::MAX reached");
}
