//! std.join(sep, arr) with an array separator against its definition in the standard-library documentation:
//! nulls are skipped, the arrays are concatenated with `sep` between consecutive arrays (never before the
//! first, never after the last), any other element is an error.
use crate::join::*;

fn any_inner(max: usize) -> InnerArr {
    let v: [i16; INNER] = kani::any();
    let n: usize = kani::any();
    kani::assume(n <= max);
    kani::assume(v[0] >= -9 && v[0] <= 9 && v[1] >= -9 && v[1] <= 9);
    InnerArr { v, n }
}
fn any_val() -> Val {
    let k: u8 = kani::any();
    kani::assume(k < 3);
    match k {
        0 => Val::Null,
        1 => {
            let x: i16 = kani::any();
            kani::assume(x >= -9 && x <= 9);
            Val::Num(x)
        }
        _ => Val::Arr(any_inner(INNER)),
    }
}
#[cfg(verif_playback)]
fn show_inner(a: &InnerArr) -> String {
    let mut s = String::from("[");
    for i in 0..a.n {
        if i > 0 {
            s.push_str(", ");
        }
        s.push_str(&a.v[i].to_string());
    }
    s.push(']');
    s
}

//@harness name=join_array_sep tier=quick timeout=900 unwind=10 desc="std.join with an array separator = the documented definition (skip nulls, separator only between consecutive arrays, other element kinds are errors)" bounds="outer array of <= 2 elements, each null / a number / an array of <= 2 small integers; separator array of <= 2 small integers"
#[kani::proof]
#[kani::unwind(10)]
pub fn join_array_sep() {
    let sep = any_inner(INNER);
    let items = [any_val(), any_val()];
    let n: usize = kani::any();
    kani::assume(n <= OUTER);
    let arr = ArrValue { items, n };
    // reference
    let mut want = [0i16; OUT];
    let mut wn = 0;
    let mut bad = false;
    let mut seen = false;
    let mut i = 0;
    while i < OUTER {
        if i < n {
            match items[i] {
                Val::Null => {}
                Val::Num(_) => bad = true,
                Val::Arr(a) => {
                    if seen {
                        let mut k = 0;
                        while k < INNER {
                            if k < sep.n {
                                want[wn] = sep.v[k];
                                wn += 1;
                            }
                            k += 1;
                        }
                    }
                    seen = true;
                    let mut k = 0;
                    while k < INNER {
                        if k < a.n {
                            want[wn] = a.v[k];
                            wn += 1;
                        }
                        k += 1;
                    }
                }
            }
        }
        i += 1;
    }
    #[cfg(verif_playback)]
    {
        let mut prog = format!("std.join({}, [", show_inner(&sep));
        for i in 0..n {
            if i > 0 {
                prog.push_str(", ");
            }
            match items[i] {
                Val::Null => prog.push_str("null"),
                Val::Num(x) => prog.push_str(&x.to_string()),
                Val::Arr(a) => prog.push_str(&show_inner(&a)),
            }
        }
        prog.push_str("])");
        println!("REPLAY-INPUT: {}", prog);
        println!("REPLAY-JSONNET: {}", prog);
        if bad {
            println!("REPLAY-EXPECT: error");
        } else {
            let w: Vec<String> = want[..wn].iter().map(|x| x.to_string()).collect();
            println!("REPLAY-EXPECT: value [{}]", w.join(", "));
        }
        println!("REPLAY-ROLE: C10.join.arrays");
    }
    let r = join_arrays(sep, arr);
    match r {
        Err(_) => assert!(bad, "C10.join.error std.join fails only for an element that is neither an array nor null"),
        Ok(IndexableVal::Arr(out)) => {
            assert!(!bad, "C10.join.error an element that is neither an array nor null is an error");
            assert!(out.0.len() == wn, "C10.join.len separator only between consecutive arrays; nulls contribute nothing");
            let mut k = 0;
            while k < OUT {
                if k < wn && k < out.0.len() {
                    assert!(out.0[k] == Val::Num(want[k]), "C10.join.elements arrays and separators in order");
                }
                k += 1;
            }
        }
    }
    kani::cover!(n == 2 && matches!(items[0], Val::Null) && matches!(items[1], Val::Arr(_)) && sep.n > 0, "null before the first array reached");
    kani::cover!(n == 2 && matches!(items[0], Val::Arr(_)) && matches!(items[1], Val::Arr(_)) && sep.n == 2, "two arrays joined by a two-element separator reached");
    kani::cover!(bad, "wrong element kind reached");
    kani::cover!(wn == OUT, "full output reached");
}
