//! C10 — `std.join` with an array separator: the arm of `builtin_join` (jrsonnet-stdlib/src/arrays.rs) that
//! concatenates arrays, extracted verbatim as a block, over a small symbolic array of arrays / nulls / other values.
#![allow(unused, dead_code, clippy::all, non_local_definitions, non_snake_case)]
//@include ../../../../prelude/generic_error.in
mod prelude;

pub mod join {
    use crate::error::Result;
    use crate::prelude::fixed::FixedVec;

    pub const INNER: usize = 2;
    pub const OUTER: usize = 2;
    pub const OUT: usize = 6;

    /// array of numbers (an element of the outer array, or the separator): fixed storage, symbolic length
    #[derive(Clone, Copy, Debug, PartialEq, Eq)]
    pub struct InnerArr {
        pub v: [i16; INNER],
        pub n: usize,
    }
    pub struct InnerIter {
        a: InnerArr,
        at: usize,
    }
    impl Iterator for InnerIter {
        type Item = Result<Val>;
        fn next(&mut self) -> Option<Result<Val>> {
            if self.at < self.a.n {
                let x = self.a.v[self.at];
                self.at += 1;
                Some(Ok(Val::Num(x)))
            } else {
                None
            }
        }
    }
    impl InnerArr {
        pub fn len(&self) -> usize {
            self.n
        }
        pub fn iter(&self) -> InnerIter {
            InnerIter { a: *self, at: 0 }
        }
    }
    /// the value kinds std.join distinguishes: arrays, null, anything else
    #[derive(Clone, Copy, Debug, PartialEq, Eq)]
    pub enum Val {
        Null,
        Num(i16),
        Arr(InnerArr),
    }
    #[derive(Clone, Copy, Debug)]
    pub struct ArrValue {
        pub items: [Val; OUTER],
        pub n: usize,
    }
    pub struct OuterIter {
        a: ArrValue,
        at: usize,
    }
    impl Iterator for OuterIter {
        type Item = Result<Val>;
        fn next(&mut self) -> Option<Result<Val>> {
            if self.at < self.a.n {
                let x = self.a.items[self.at];
                self.at += 1;
                Some(Ok(x))
            } else {
                None
            }
        }
    }
    impl ArrValue {
        pub fn iter(&self) -> OuterIter {
            OuterIter { a: *self, at: 0 }
        }
    }
    /// result accumulator: the name `Vec` is shadowed in this module (DESIGN §1, prelude/fixed.rs)
    pub type Vec = FixedVec<Val, OUT>;
    pub struct OutArr(pub Vec);
    impl From<Vec> for OutArr {
        fn from(v: Vec) -> Self {
            OutArr(v)
        }
    }
    pub enum IndexableVal {
        Arr(OutArr),
    }

    pub fn join_arrays(joiner_items: InnerArr, arr: ArrValue) -> Result<IndexableVal> {
        Ok(
        //@extract crates/jrsonnet-stdlib/src/arrays.rs :: block fn builtin_join @ IndexableVal::Arr\(joiner_items\) =>
        )
    }
}
#[cfg(kani)]
mod harnesses;
