//! Indexing with a number: a value exactly for an integer index inside the bounds, an error otherwise.
use crate::error::*;
use crate::index::*;
use crate::prelude::symstr::SymStr;

//@harness name=index_array tier=quick timeout=600 unwind=5 desc="Expr::Index arm (Val::Arr, Val::Num): element i for an integer 0 <= i < len, an error for every other finite double" bounds="array length 0..=3, index: every finite double"
#[kani::proof]
#[kani::unwind(5)]
pub fn index_array() {
    let v = ArrValue { e: [10, 20, 30], n: kani::any() };
    kani::assume(v.n <= 3);
    let x: f64 = kani::any();
    kani::assume(x.is_finite());
    #[cfg(verif_playback)]
    {
        println!("REPLAY-INPUT: len={} index={:e} bits={:#x}", v.n, x, x.to_bits());
        let arr = ["[]", "[10]", "[10, 20]", "[10, 20, 30]"][v.n];
        let integral = x == 0.0 || x == 1.0 || x == 2.0;
        println!("REPLAY-JSONNET: {}[{:e}]", arr, x);
        if integral && (x as usize) < v.n {
            println!("REPLAY-EXPECT: value {}", v.e[x as usize]);
        } else {
            println!("REPLAY-EXPECT: error");
        }
    }
    let r = arr_num(&v, &NumValue(x));
    let i = if x == 0.0 {
        Some(0)
    } else if x == 1.0 {
        Some(1)
    } else if x == 2.0 {
        Some(2)
    } else {
        None
    };
    match i {
        Some(i) if i < v.n => {
            assert!(r == Ok(v.e[i]), "C08.index.array_in_bounds an in-bounds integer index does not return that element");
        }
        _ => {
            assert!(r.is_err(), "C08.index.array_error a fractional, negative or out-of-bounds index is not an error");
        }
    }
    kani::cover!(r.is_ok() && x == 2.0, "last element reached");
    kani::cover!(r.is_err() && x > 0.0 && x < 1.0, "fractional index reached");
}

macro_rules! index_string {
    ($name:ident, $n:expr) => {
        #[kani::proof]
        #[kani::unwind(6)]
        pub fn $name() {
            let s = SymStr::<$n>::any_utf8_len($n);
            let x: f64 = kani::any();
            kani::assume(x.is_finite());
            #[cfg(verif_playback)]
            {
                println!("REPLAY-INPUT: {:?} index={:e} bits={:#x}", s.as_str(), x, x.to_bits());
                let integral = x >= 0.0 && x == (x as u64 as f64);
                println!("REPLAY-JSONNET: std.codepoint({}[{:e}])", s.jsonnet(), x);
                match s.as_str().chars().nth(x as usize) {
                    Some(c) if integral => println!("REPLAY-EXPECT: value {}", c as u32),
                    _ => println!("REPLAY-EXPECT: error"),
                }
            }
            let r = str_num(StrValue::Flat(IStr::from(s.as_str())), &NumValue(x));
            // reference: walk the bytes, count scalar starts
            let mut starts = [usize::MAX; $n + 1];
            let mut cnt = 0;
            let mut i = 0;
            while i < $n {
                if s.b[i] & 0xC0 != 0x80 {
                    starts[cnt] = i;
                    cnt += 1;
                }
                i += 1;
            }
            starts[cnt] = $n;
            let mut want: Option<usize> = None;
            let mut k = 0;
            while k < $n {
                if k < cnt && x == k as f64 {
                    want = Some(k);
                }
                k += 1;
            }
            let ok = r.is_ok();
            match want {
                Some(k) => {
                    assert!(r.is_ok(), "C08.index.string_in_bounds an in-bounds integer index into a string fails");
                    let got = r.unwrap().into_flat();
                    let (a, b) = (starts[k], starts[k + 1]);
                    assert!(got.len() == b - a, "C08.index.string_char the indexed string is not that one code point");
                    let mut j = 0;
                    while j < 4 {
                        if j < b - a {
                            assert!(got.as_bytes()[j] == s.b[a + j], "C08.index.string_char the indexed string is not that one code point");
                        }
                        j += 1;
                    }
                }
                None => assert!(r.is_err(), "C08.index.string_error a fractional, negative or out-of-bounds string index is not an error"),
            }
            kani::cover!(ok && x == 1.0 && s.b[0] >= 0xC2, "second code point after a multi-byte one reached");
            kani::cover!(!ok && x > 0.0 && x < 1.0, "fractional index reached");
        }
    };
}
//@harness name=index_string_3 tier=quick timeout=900 unwind=6 desc="Expr::Index arm (Val::Str, Val::Num): the i-th code point for an integer 0 <= i < length in code points, an error for every other finite double" bounds="every well-formed UTF-8 string of exactly 3 bytes, index: every finite double"
index_string!(index_string_3, 3);
