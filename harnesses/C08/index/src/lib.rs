//! C08 / C01 — the two numeric-index arms of `Expr::Index` in `evaluate()` (array[number] and
//! string[number]), extracted as blocks and wrapped in functions that bind the names the arms use.
#![allow(unused, dead_code, clippy::all, non_local_definitions)]
//@include ../../../../prelude/generic_error.in
mod prelude;
pub mod index {
    use crate::error::*;
    pub type String = crate::prelude::fixed::FixedString<4>;
    pub type IStr = String;
    #[derive(Clone, Copy)]
    pub struct NumValue(pub f64);
    impl NumValue {
        pub fn get(&self) -> f64 {
            self.0
        }
    }
    /// A plain array of at most three distinct elements (the representations are C08's views crate).
    pub struct ArrValue {
        pub e: [u8; 3],
        pub n: usize,
    }
    impl ArrValue {
        pub fn len(&self) -> usize {
            self.n
        }
        pub fn get(&self, i: usize) -> Result<Option<u8>> {
            Ok(if i < self.n { Some(self.e[i]) } else { None })
        }
    }
    #[derive(Clone)]
    pub enum StrValue {
        Flat(IStr),
    }
    impl StrValue {
        pub fn into_flat(self) -> IStr {
            match self {
                StrValue::Flat(s) => s,
            }
        }
    }
    pub fn arr_num(v: &ArrValue, n: &NumValue) -> Result<u8> {
        let r =
        //@extract crates/jrsonnet-evaluator/src/evaluate/mod.rs :: block fn evaluate @ \(Val::Arr\(v\), Val::Num\(n\)\) =>
        ;
        Ok(r)
    }
    pub fn str_num(s: StrValue, n: &NumValue) -> Result<StrValue> {
        let r =
        //@extract crates/jrsonnet-evaluator/src/evaluate/mod.rs :: block fn evaluate @ \(Val::Str\(s\), Val::Num\(n\)\) => Val::Str\(
        ;
        Ok(r)
    }
}
#[cfg(kani)]
mod harnesses;
