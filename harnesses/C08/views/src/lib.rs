//! C08 — array views: the repo's `arr/spec.rs` view types and `arr/mod.rs` constructors, extracted
//! verbatim and instantiated once per composition level (DESIGN.md §1 E2, §2 C08).
//!
//! Level 0: base arrays (Range / Eager / Lazy).  Level k: the four views over level k-1.
//! In every level module the name `ArrValue` resolves to the *previous* level's array type, so the
//! extracted view structs (`inner: ArrValue`) are the repo's text; `Out` is this level's wrapper
//! (stand-in for `Cc<dyn ArrayLike>`, dispatch by `match` instead of a vtable).
#![allow(unused, dead_code, clippy::all)]
#![allow(non_local_definitions)]

//@include ../../../../prelude/bail.in
mod prelude;
pub mod error {
    pub use crate::prelude::err::*;
    impl From<crate::prelude::num::ConvertNumValueError> for Error {
        fn from(_: crate::prelude::num::ConvertNumValueError) -> Self {
            Error(ErrorKind::Other)
        }
    }
}

pub mod val {
    use crate::prelude::*;
    use crate::error::*;
    pub use crate::prelude::num::NumValue;
    /// Array elements in these harnesses are numbers (each element identifies its origin).
    #[derive(Debug, Clone, PartialEq)]
    pub enum Val {
        Null,
        Bool(bool),
        Num(NumValue),
    }
    /// `Thunk<Val>`: the views only move thunks around; evaluation caches are C03.
    #[derive(Debug, Clone, PartialEq)]
    pub struct Thunk<T>(pub T);
    impl<T: Clone> Thunk<T> {
        pub fn evaluated(v: T) -> Self {
            Thunk(v)
        }
        pub fn evaluate(&self) -> Result<T> {
            Ok(self.0.clone())
        }
    }
}

pub mod l0 {
    use crate::prelude::*;
    use crate::error::*;
    use crate::val::*;
    use std::{any::Any, fmt::Debug};
    /// element storage of Eager/Lazy arrays and the copy buffer of `extended`: fixed capacity
    /// (prelude/fixed.rs) — a growing heap Vec of symbolic length exhausts CBMC's memory
    pub type Vec<T> = crate::prelude::fixed::BoxVec<T, 10>;

    //@extract crates/jrsonnet-evaluator/src/arr/spec.rs :: trait ArrayLike
    //@extract crates/jrsonnet-evaluator/src/arr/mod.rs :: trait ArrayLikeIter
    //@extract crates/jrsonnet-evaluator/src/arr/mod.rs :: impl ArrayLikeIter for I

    #[derive(Clone)]
    //@extract crates/jrsonnet-evaluator/src/arr/spec.rs :: struct EagerArray
    //@extract crates/jrsonnet-evaluator/src/arr/spec.rs :: impl ArrayLike for EagerArray
    #[derive(Clone)]
    //@extract crates/jrsonnet-evaluator/src/arr/spec.rs :: struct LazyArray
    //@extract crates/jrsonnet-evaluator/src/arr/spec.rs :: impl ArrayLike for LazyArray
    //@extract crates/jrsonnet-evaluator/src/arr/spec.rs :: struct WithExactSize
    //@extract crates/jrsonnet-evaluator/src/arr/spec.rs :: impl Iterator for WithExactSize
    //@extract crates/jrsonnet-evaluator/src/arr/spec.rs :: impl DoubleEndedIterator for WithExactSize
    //@extract crates/jrsonnet-evaluator/src/arr/spec.rs :: impl ExactSizeIterator for WithExactSize
    #[derive(Clone)]
    //@extract crates/jrsonnet-evaluator/src/arr/spec.rs :: struct RangeArray
    //@extract crates/jrsonnet-evaluator/src/arr/spec.rs :: impl RangeArray
    //@extract crates/jrsonnet-evaluator/src/arr/spec.rs :: impl ArrayLike for RangeArray

    #[derive(Debug, Clone)]
    pub enum Node {
        Eager(EagerArray),
        Lazy(LazyArray),
        Range(RangeArray),
    }
    impl From<EagerArray> for Node {
        fn from(v: EagerArray) -> Self {
            Node::Eager(v)
        }
    }
    impl From<LazyArray> for Node {
        fn from(v: LazyArray) -> Self {
            Node::Lazy(v)
        }
    }
    impl From<RangeArray> for Node {
        fn from(v: RangeArray) -> Self {
            Node::Range(v)
        }
    }
    macro_rules! dispatch {
        ($s:expr, $v:ident => $e:expr) => {
            match $s {
                Node::Eager($v) => $e,
                Node::Lazy($v) => $e,
                Node::Range($v) => $e,
            }
        };
    }
    impl ArrayLike for Node {
        fn len(&self) -> usize {
            dispatch!(self, v => v.len())
        }
        fn is_empty(&self) -> bool {
            dispatch!(self, v => v.is_empty())
        }
        fn get(&self, index: usize) -> Result<Option<Val>> {
            dispatch!(self, v => v.get(index))
        }
        fn get_lazy(&self, index: usize) -> Option<Thunk<Val>> {
            dispatch!(self, v => v.get_lazy(index))
        }
        fn get_cheap(&self, index: usize) -> Option<Val> {
            dispatch!(self, v => v.get_cheap(index))
        }
        fn is_cheap(&self) -> bool {
            dispatch!(self, v => v.is_cheap())
        }
    }
    /// level-0 arrays are clonable (`Cc` clone in the repo): needed by std.removeAt, which slices its argument twice
    #[derive(Debug, Clone)]
    pub struct Out(pub Node);
//@include accessors.in
    impl Out {
        //@extract crates/jrsonnet-evaluator/src/arr/mod.rs :: fn ArrValue::range_exclusive
        //@extract crates/jrsonnet-evaluator/src/arr/mod.rs :: fn ArrValue::range_inclusive
    }
}

pub mod l1 {
//@include level.in LOWER=l0
}
pub mod l2 {
//@include level.in LOWER=l1
}

#[cfg(kani)]
mod harnesses;
