//! C08 harnesses. Oracle: an integer model of "the plainly constructed array with the same contents".
//!
//! Assumptions (copied into the evidence file):
//!  A1  element values are numbers that identify their origin (Range start..start+n, or Eager [10,11,..]);
//!  A2  base length n <= N_MAX, repeat count k <= 3, |range start| <= 4;
//!  A3  slice step in 1..=i32::MAX (what `BoundedUsize<1, i32::MAX>` lets through `std.slice`);
//!  A5  probe index is a usize that `n as usize` can produce from a double (<= 2^53 or a multiple of 2048);
//!  A4  views are built only through the repo's constructors (`slice`, `reversed`, `repeated`,
//!      `extended`, `range_exclusive`), never by filling view structs with arbitrary fields.
use crate::l0;
// `Vec`/`String` in this file are std's (replay printing); element storage is l0::Vec
use std::string::String;
use std::vec::Vec;
use crate::l1::{self, Views as _};
use crate::l2::{self, Views as _};
use crate::prelude::*;
use crate::error::*;
use crate::val::*;
use std::num::NonZeroU32;

const N_MAX: usize = 5;

// ---------------------------------------------------------------------------------------------
// reference model
// ---------------------------------------------------------------------------------------------
pub trait Model {
    fn len(&self) -> usize;
    /// element at i, i < len
    fn at(&self, i: usize) -> i64;
    #[cfg(verif_playback)]
    fn jsonnet(&self) -> String;
}
#[derive(Clone, Copy)]
pub struct MRange {
    start: i32,
    n: usize,
}
impl Model for MRange {
    fn len(&self) -> usize {
        self.n
    }
    fn at(&self, i: usize) -> i64 {
        self.start as i64 + i as i64
    }
    #[cfg(verif_playback)]
    fn jsonnet(&self) -> String {
        format!("std.range({}, {})", self.start, self.start as i64 + self.n as i64 - 1)
    }
}
#[derive(Clone, Copy)]
pub struct MEager {
    n: usize,
}
impl Model for MEager {
    fn len(&self) -> usize {
        self.n
    }
    fn at(&self, i: usize) -> i64 {
        10 + i as i64
    }
    #[cfg(verif_playback)]
    fn jsonnet(&self) -> String {
        let v: Vec<String> = (0..self.n).map(|i| format!("{}", 10 + i)).collect();
        format!("[{}]", v.join(", "))
    }
}
#[derive(Clone, Copy)]
pub struct MSlice<M> {
    m: M,
    from: Option<i32>,
    to: Option<i32>,
    step: u32,
}
impl<M: Model> MSlice<M> {
    fn bounds(&self) -> (usize, usize) {
        let len = self.m.len() as i64;
        let norm = |p: Option<i32>, d: i64| match p {
            None => d,
            Some(v) if v < 0 => (len + v as i64).max(0),
            Some(v) => (v as i64).min(len),
        };
        let f = norm(self.from, 0);
        let t = norm(self.to, len);
        if f >= t {
            (0, 0)
        } else {
            (f as usize, t as usize)
        }
    }
}
impl<M: Model> Model for MSlice<M> {
    fn len(&self) -> usize {
        let (f, t) = self.bounds();
        let span = (t - f) as u64;
        let step = self.step as u64;
        ((span + step - 1) / step) as usize
    }
    fn at(&self, i: usize) -> i64 {
        let (f, _) = self.bounds();
        self.m.at(f + i * self.step as usize)
    }
    #[cfg(verif_playback)]
    fn jsonnet(&self) -> String {
        let o = |p: Option<i32>| p.map_or("null".to_string(), |v| v.to_string());
        format!("std.slice({}, {}, {}, {})", self.m.jsonnet(), o(self.from), o(self.to), self.step)
    }
}
#[derive(Clone, Copy)]
pub struct MRev<M>(M);
impl<M: Model> Model for MRev<M> {
    fn len(&self) -> usize {
        self.0.len()
    }
    fn at(&self, i: usize) -> i64 {
        self.0.at(self.0.len() - 1 - i)
    }
    #[cfg(verif_playback)]
    fn jsonnet(&self) -> String {
        format!("std.reverse({})", self.0.jsonnet())
    }
}
#[derive(Clone, Copy)]
pub struct MRep<M>(M, usize);
impl<M: Model> Model for MRep<M> {
    fn len(&self) -> usize {
        self.0.len() * self.1
    }
    fn at(&self, i: usize) -> i64 {
        self.0.at(i % self.0.len())
    }
    #[cfg(verif_playback)]
    fn jsonnet(&self) -> String {
        format!("std.repeat({}, {})", self.0.jsonnet(), self.1)
    }
}
#[derive(Clone, Copy)]
pub struct MExt<A, B>(A, B);
impl<A: Model, B: Model> Model for MExt<A, B> {
    fn len(&self) -> usize {
        self.0.len() + self.1.len()
    }
    fn at(&self, i: usize) -> i64 {
        if i < self.0.len() {
            self.0.at(i)
        } else {
            self.1.at(i - self.0.len())
        }
    }
    #[cfg(verif_playback)]
    fn jsonnet(&self) -> String {
        format!("({} + {})", self.0.jsonnet(), self.1.jsonnet())
    }
}

// ---------------------------------------------------------------------------------------------
// symbolic inputs
// ---------------------------------------------------------------------------------------------
fn any_range() -> (l0::Out, MRange) {
    any_range_n(N_MAX)
}
fn any_range_n(n_max: usize) -> (l0::Out, MRange) {
    let start: i32 = kani::any();
    let n: usize = kani::any();
    kani::assume(start >= -4 && start <= 4);
    kani::assume(n <= n_max);
    // std.range(a, b) / makeArray build `range_exclusive(a, a+n)`-shaped arrays
    (l0::Out::range_exclusive(start, start + n as i32), MRange { start, n })
}
fn any_eager() -> (l0::Out, MEager) {
    let n: usize = kani::any();
    kani::assume(n <= 3);
    let all = [Val::Num(10.into()), Val::Num(11.into()), Val::Num(12.into())];
    let v = match n {
        0 => l0::Vec::from_slice(&all[..0]),
        1 => l0::Vec::from_slice(&all[..1]),
        2 => l0::Vec::from_slice(&all[..2]),
        _ => l0::Vec::from_slice(&all[..3]),
    };
    (l0::Out::eager(v), MEager { n })
}
fn any_slice_args() -> (Option<i32>, Option<i32>, u32) {
    let from: Option<i32> = kani::any();
    let to: Option<i32> = kani::any();
    let step: u32 = kani::any();
    kani::assume(step >= 1 && step <= i32::MAX as u32);
    (from, to, step)
}
fn any_small_slice_args() -> (Option<i32>, Option<i32>, u32) {
    let (from, to, step) = any_slice_args();
    if let Some(f) = from {
        kani::assume(f >= -8 && f <= 8);
    }
    if let Some(t) = to {
        kani::assume(t >= -8 && t <= 8);
    }
    kani::assume(step <= 4);
    (from, to, step)
}
/// depth-2 quick tier: the same argument *kinds* over a smaller box (|from|,|to| <= 4, step <= 3)
fn any_tiny_slice_args() -> (Option<i32>, Option<i32>, u32) {
    let from: Option<i8> = kani::any();
    let to: Option<i8> = kani::any();
    let step: u8 = kani::any();
    kani::assume(step >= 1 && step <= 3);
    if let Some(f) = from {
        kani::assume(f >= -4 && f <= 4);
    }
    if let Some(t) = to {
        kani::assume(t >= -4 && t <= 4);
    }
    (from.map(|v| v as i32), to.map(|v| v as i32), step as u32)
}
fn any_reps() -> usize {
    let k: usize = kani::any();
    kani::assume(k <= 3);
    k
}

fn is_num(v: &Result<Option<Val>>, want: i64) -> bool {
    match v {
        Ok(Some(Val::Num(x))) => x.get() == want as f64,
        _ => false,
    }
}


#[cfg(verif_playback)]
fn replay_lines<M: Model>(m: &M, i: Option<usize>) {
    let e = m.jsonnet();
    let mlen = m.len();
    println!("REPLAY-INPUT: array={} index={:?} model_len={}", e, i, mlen);
    println!("REPLAY-JSONNET: std.length({})", e);
    println!("REPLAY-EXPECT: value {}", mlen);
    if let Some(i) = i {
        println!("REPLAY-JSONNET: ({})[{}]", e, i);
        if i < mlen {
            println!("REPLAY-EXPECT: value {}", m.at(i));
        } else {
            println!("REPLAY-EXPECT: error");
        }
    }
    println!("REPLAY-JSONNET: std.manifestJsonMinified({})", e);
    let all: Vec<String> = (0..mlen).map(|k| m.at(k).to_string()).collect();
    println!("REPLAY-EXPECT: value \"[{}]\"", all.join(","));
    // concatenation consults is_empty()/len()/is_cheap() of the representation
    let mut with: Vec<String> = all.clone();
    with.push("100".to_string());
    println!("REPLAY-JSONNET: ({}) + [100]", e);
    println!("REPLAY-EXPECT: value [{}]", with.join(","));
    let mut pre: Vec<String> = vec!["100".to_string()];
    pre.extend(all.iter().cloned());
    println!("REPLAY-JSONNET: [100] + ({})", e);
    println!("REPLAY-EXPECT: value [{}]", pre.join(","));
    println!("REPLAY-JSONNET: ({}) == [{}]", e, all.join(","));
    println!("REPLAY-EXPECT: value true");
}

/// An index the language can pass: `n as usize` of a double (A5).
fn any_index() -> usize {
    let i: usize = kani::any();
    kani::assume(i <= (1usize << 53) || i & 2047 == 0);
    i
}

/// Three harnesses per representation: length, in-bounds reads, out-of-bounds reads — the whole
/// observable surface of `ArrayLike` (`len`, `is_empty`, `get`, `get_lazy`, `get_cheap`).
macro_rules! view_harnesses {
    ($len:ident, $inb:ident, $oob:ident, $unwind:literal, $build:block) => {
        #[kani::proof]
        #[kani::unwind($unwind)]
        pub fn $len() {
            let (out, m) = $build;
            let mlen = m.len();
            #[cfg(verif_playback)]
            replay_lines(&m, None);
            assert!(out.len() == mlen, "C08.len length differs from the plainly constructed array");
            assert!(out.is_empty() == (mlen == 0), "C08.is_empty");
            kani::cover!(mlen <= 2, "short result reached");
            kani::cover!(mlen > 2, "result with more than two elements reached");
        }
        #[kani::proof]
        #[kani::unwind($unwind)]
        pub fn $inb() {
            let (out, m) = $build;
            let i = any_index();
            let mlen = m.len();
            kani::assume(i < mlen);
            #[cfg(verif_playback)]
            replay_lines(&m, Some(i));
            let want = m.at(i);
            assert!(is_num(&out.get(i), want), "C08.get.in_bounds wrong element");
            let gl = out.get_lazy(i);
            assert!(
                matches!(&gl, Some(t) if is_num(&t.evaluate().map(Some), want)),
                "C08.get_lazy.in_bounds wrong element"
            );
            if out.is_cheap() {
                assert!(is_num(&Ok(out.get_cheap(i)), want), "C08.get_cheap.in_bounds wrong element");
            }
            kani::cover!(i == mlen - 1 && mlen > 1, "last element reached");
            kani::cover!(i == 0 && mlen > 1, "first element reached");
        }
        #[kani::proof]
        #[kani::unwind($unwind)]
        pub fn $oob() {
            let (out, m) = $build;
            let i = any_index();
            let mlen = m.len();
            kani::assume(i >= mlen);
            #[cfg(verif_playback)]
            replay_lines(&m, Some(i));
            assert!(matches!(out.get(i), Ok(None)), "C08.get.oob index >= len must be None (out of bounds)");
            assert!(out.get_lazy(i).is_none(), "C08.get_lazy.oob index >= len must be None");
            assert!(out.get_cheap(i).is_none(), "C08.get_cheap.oob index >= len must be None");
            kani::cover!(mlen > 0 && i == mlen, "index == len reached");
            kani::cover!(i > (1usize << 60), "huge index reached");
        }
    };
}
//@harness name=d0_range_len tier=quick timeout=240 unwind=8 desc="Range base array: len/is_empty" bounds="n<=5, |start|<=4"
//@harness name=d0_range_inb tier=quick timeout=240 unwind=8 desc="Range base array: get/get_lazy/get_cheap at every index < len" bounds="n<=5, |start|<=4"
//@harness name=d0_range_oob tier=quick timeout=240 unwind=8 desc="Range base array: get/get_lazy/get_cheap at every language-reachable index >= len" bounds="n<=5, |start|<=4"
view_harnesses!(d0_range_len, d0_range_inb, d0_range_oob, 8, { any_range() });

//@harness name=d0_eager_len tier=quick timeout=240 unwind=8 desc="Eager base array: len/is_empty" bounds="n<=3"
//@harness name=d0_eager_inb tier=quick timeout=240 unwind=8 desc="Eager base array: get/get_lazy/get_cheap at every index < len" bounds="n<=3"
//@harness name=d0_eager_oob tier=quick timeout=240 unwind=8 desc="Eager base array: get/get_lazy/get_cheap at every language-reachable index >= len" bounds="n<=3"
view_harnesses!(d0_eager_len, d0_eager_inb, d0_eager_oob, 8, { any_eager() });

//@harness name=d1_slice_range_len tier=quick timeout=300 unwind=8 desc="slice(range), from/to: every Option<i32>, step: 1..=i32::MAX: len/is_empty" bounds="n<=5"
//@harness name=d1_slice_range_inb tier=quick timeout=300 unwind=8 desc="slice(range), from/to: every Option<i32>, step: 1..=i32::MAX: get/get_lazy/get_cheap at every index < len" bounds="n<=5"
//@harness name=d1_slice_range_oob tier=quick timeout=300 unwind=8 desc="slice(range), from/to: every Option<i32>, step: 1..=i32::MAX: get/get_lazy/get_cheap at every language-reachable index >= len" bounds="n<=5"
view_harnesses!(d1_slice_range_len, d1_slice_range_inb, d1_slice_range_oob, 8, { let (a, m) = any_range(); let (from, to, step) = any_slice_args(); (a.slice(from, to, NonZeroU32::new(step)), MSlice { m, from, to, step }) });

//@harness name=d1_slice_eager_len tier=quick timeout=300 unwind=8 desc="slice(eager), from/to: every Option<i32>, step: 1..=i32::MAX: len/is_empty" bounds="n<=3"
//@harness name=d1_slice_eager_inb tier=quick timeout=300 unwind=8 desc="slice(eager), from/to: every Option<i32>, step: 1..=i32::MAX: get/get_lazy/get_cheap at every index < len" bounds="n<=3"
//@harness name=d1_slice_eager_oob tier=quick timeout=300 unwind=8 desc="slice(eager), from/to: every Option<i32>, step: 1..=i32::MAX: get/get_lazy/get_cheap at every language-reachable index >= len" bounds="n<=3"
view_harnesses!(d1_slice_eager_len, d1_slice_eager_inb, d1_slice_eager_oob, 8, { let (a, m) = any_eager(); let (from, to, step) = any_slice_args(); (a.slice(from, to, NonZeroU32::new(step)), MSlice { m, from, to, step }) });

//@harness name=d1_reverse_range_len tier=quick timeout=300 unwind=8 desc="reversed(range): len/is_empty" bounds="n<=5"
//@harness name=d1_reverse_range_inb tier=quick timeout=300 unwind=8 desc="reversed(range): get/get_lazy/get_cheap at every index < len" bounds="n<=5"
//@harness name=d1_reverse_range_oob tier=quick timeout=300 unwind=8 desc="reversed(range): get/get_lazy/get_cheap at every language-reachable index >= len" bounds="n<=5"
view_harnesses!(d1_reverse_range_len, d1_reverse_range_inb, d1_reverse_range_oob, 8, { let (a, m) = any_range(); (a.reversed(), MRev(m)) });

//@harness name=d1_repeat_range_len tier=quick timeout=300 unwind=8 desc="repeated(range,k): len/is_empty" bounds="n<=5,k<=3"
//@harness name=d1_repeat_range_inb tier=quick timeout=300 unwind=8 desc="repeated(range,k): get/get_lazy/get_cheap at every index < len" bounds="n<=5,k<=3"
//@harness name=d1_repeat_range_oob tier=quick timeout=300 unwind=8 desc="repeated(range,k): get/get_lazy/get_cheap at every language-reachable index >= len" bounds="n<=5,k<=3"
view_harnesses!(d1_repeat_range_len, d1_repeat_range_inb, d1_repeat_range_oob, 8, { let (a, m) = any_range(); let k = any_reps(); (l1::Views::repeated(a, k).expect("small sizes do not overflow"), MRep(m, k)) });

//@harness name=d1_extend_copy_len tier=quick timeout=400 unwind=12 desc="extended(range, eager): copying path below 1000 elements: len/is_empty" bounds="n<=5 + n<=3 (element storage and copy buffer are fixed-capacity stand-ins)"
//@harness name=d1_extend_copy_inb tier=quick timeout=600 unwind=12 desc="extended(range, eager): copying path below 1000 elements: get/get_lazy/get_cheap at every index < len" bounds="n<=5 + n<=3 (element storage and copy buffer are fixed-capacity stand-ins)"
//@harness name=d1_extend_copy_oob tier=quick timeout=600 unwind=12 desc="extended(range, eager): copying path below 1000 elements: get/get_lazy/get_cheap at every language-reachable index >= len" bounds="n<=5 + n<=3 (element storage and copy buffer are fixed-capacity stand-ins)"
view_harnesses!(d1_extend_copy_len, d1_extend_copy_inb, d1_extend_copy_oob, 12, { let (a, ma) = any_range(); let (b, mb) = any_eager(); (l1::Views::extended(a, b), MExt(ma, mb)) });

//@harness name=d1_extend_linked_len tier=quick timeout=300 unwind=8 desc="ExtendedArray::new(range, eager): linked representation (used above 1000 elements) driven directly, both parts non-empty: len/is_empty" bounds="n in 1..=5 + 1..=3"
//@harness name=d1_extend_linked_inb tier=quick timeout=300 unwind=8 desc="ExtendedArray::new(range, eager): linked representation (used above 1000 elements) driven directly, both parts non-empty: get/get_lazy/get_cheap at every index < len" bounds="n in 1..=5 + 1..=3"
//@harness name=d1_extend_linked_oob tier=quick timeout=300 unwind=8 desc="ExtendedArray::new(range, eager): linked representation (used above 1000 elements) driven directly, both parts non-empty: get/get_lazy/get_cheap at every language-reachable index >= len" bounds="n in 1..=5 + 1..=3"
view_harnesses!(d1_extend_linked_len, d1_extend_linked_inb, d1_extend_linked_oob, 8, { let (a, ma) = any_range(); let (b, mb) = any_eager(); kani::assume(ma.n > 0 && mb.n > 0); (l1::Out::new(l1::ExtendedArray::new(a, b)), MExt(ma, mb)) });

//@harness name=d2_slice_of_reverse_len tier=quick timeout=400 unwind=10 desc="slice(reversed(range)): len/is_empty" bounds="n<=5, |from|,|to|<=8, step<=4"
//@harness name=d2_slice_of_reverse_inb tier=thorough timeout=3600 unwind=10 desc="slice(reversed(range)): get/get_lazy/get_cheap at every index < len" bounds="n<=5, |from|,|to|<=8, step<=4"
//@harness name=d2_slice_of_reverse_oob tier=thorough timeout=3600 unwind=10 desc="slice(reversed(range)): get/get_lazy/get_cheap at every language-reachable index >= len" bounds="n<=5, |from|,|to|<=8, step<=4"
view_harnesses!(d2_slice_of_reverse_len, d2_slice_of_reverse_inb, d2_slice_of_reverse_oob, 10, { let (a, m) = any_range(); let (from, to, step) = any_small_slice_args(); (a.reversed().slice(from, to, NonZeroU32::new(step)), MSlice { m: MRev(m), from, to, step }) });

//@harness name=d2_reverse_of_slice_len tier=quick timeout=400 unwind=10 desc="reversed(slice(range)): len/is_empty" bounds="n<=5, |from|,|to|<=8, step<=4"
//@harness name=d2_reverse_of_slice_inb tier=thorough timeout=3600 unwind=10 desc="reversed(slice(range)): get/get_lazy/get_cheap at every index < len" bounds="n<=5, |from|,|to|<=8, step<=4"
//@harness name=d2_reverse_of_slice_oob tier=thorough timeout=3600 unwind=10 desc="reversed(slice(range)): get/get_lazy/get_cheap at every language-reachable index >= len" bounds="n<=5, |from|,|to|<=8, step<=4"
view_harnesses!(d2_reverse_of_slice_len, d2_reverse_of_slice_inb, d2_reverse_of_slice_oob, 10, { let (a, m) = any_range(); let (from, to, step) = any_small_slice_args(); (a.slice(from, to, NonZeroU32::new(step)).reversed(), MRev(MSlice { m, from, to, step })) });

//@harness name=d2_slice_of_slice_len tier=quick timeout=400 unwind=10 desc="slice(slice(range)): len/is_empty" bounds="n<=5, small slice args twice"
//@harness name=d2_slice_of_slice_inb tier=thorough timeout=3600 unwind=10 desc="slice(slice(range)): get/get_lazy/get_cheap at every index < len" bounds="n<=5, small slice args twice"
//@harness name=d2_slice_of_slice_oob tier=thorough timeout=3600 unwind=10 desc="slice(slice(range)): get/get_lazy/get_cheap at every language-reachable index >= len" bounds="n<=5, small slice args twice"
view_harnesses!(d2_slice_of_slice_len, d2_slice_of_slice_inb, d2_slice_of_slice_oob, 10, { let (a, m) = any_range(); let (f1, t1, s1) = any_small_slice_args(); let (f2, t2, s2) = any_small_slice_args(); (a.slice(f1, t1, NonZeroU32::new(s1)).slice(f2, t2, NonZeroU32::new(s2)), MSlice { m: MSlice { m, from: f1, to: t1, step: s1 }, from: f2, to: t2, step: s2 }) });

//@harness name=d2_slice_of_repeat_len tier=quick timeout=400 unwind=10 desc="slice(repeated(range,k)): len/is_empty" bounds="n<=5,k<=3, small slice args"
//@harness name=d2_slice_of_repeat_inb tier=thorough timeout=3600 unwind=10 desc="slice(repeated(range,k)): get/get_lazy/get_cheap at every index < len" bounds="n<=5,k<=3, small slice args"
//@harness name=d2_slice_of_repeat_oob tier=thorough timeout=3600 unwind=10 desc="slice(repeated(range,k)): get/get_lazy/get_cheap at every language-reachable index >= len" bounds="n<=5,k<=3, small slice args"
view_harnesses!(d2_slice_of_repeat_len, d2_slice_of_repeat_inb, d2_slice_of_repeat_oob, 10, { let (a, m) = any_range(); let k = any_reps(); let (from, to, step) = any_small_slice_args(); (l1::Views::repeated(a, k).unwrap().slice(from, to, NonZeroU32::new(step)), MSlice { m: MRep(m, k), from, to, step }) });

//@harness name=d2_repeat_of_slice_len tier=quick timeout=400 unwind=10 desc="repeated(slice(range),k): len/is_empty" bounds="n<=5,k<=3, small slice args"
//@harness name=d2_repeat_of_slice_inb tier=thorough timeout=3600 unwind=10 desc="repeated(slice(range),k): get/get_lazy/get_cheap at every index < len" bounds="n<=5,k<=3, small slice args"
//@harness name=d2_repeat_of_slice_oob tier=thorough timeout=3600 unwind=10 desc="repeated(slice(range),k): get/get_lazy/get_cheap at every language-reachable index >= len" bounds="n<=5,k<=3, small slice args"
view_harnesses!(d2_repeat_of_slice_len, d2_repeat_of_slice_inb, d2_repeat_of_slice_oob, 10, { let (a, m) = any_range(); let k = any_reps(); let (from, to, step) = any_small_slice_args(); (l2::Views::repeated(a.slice(from, to, NonZeroU32::new(step)), k).unwrap(), MRep(MSlice { m, from, to, step }, k)) });

//@harness name=d2_reverse_of_repeat_len tier=quick timeout=400 unwind=10 desc="reversed(repeated(range,k)): len/is_empty" bounds="n<=5,k<=3"
//@harness name=d2_reverse_of_repeat_inb tier=thorough timeout=3600 unwind=10 desc="reversed(repeated(range,k)): get/get_lazy/get_cheap at every index < len" bounds="n<=5,k<=3"
//@harness name=d2_reverse_of_repeat_oob tier=thorough timeout=3600 unwind=10 desc="reversed(repeated(range,k)): get/get_lazy/get_cheap at every language-reachable index >= len" bounds="n<=5,k<=3"
view_harnesses!(d2_reverse_of_repeat_len, d2_reverse_of_repeat_inb, d2_reverse_of_repeat_oob, 10, { let (a, m) = any_range(); let k = any_reps(); (l1::Views::repeated(a, k).unwrap().reversed(), MRev(MRep(m, k))) });

//@harness name=d2_reverse_of_reverse_len tier=thorough timeout=600 unwind=10 desc="reversed(reversed(range)): len/is_empty" bounds="n<=5"
//@harness name=d2_reverse_of_reverse_inb tier=thorough timeout=600 unwind=10 desc="reversed(reversed(range)): get/get_lazy/get_cheap at every index < len" bounds="n<=5"
//@harness name=d2_reverse_of_reverse_oob tier=thorough timeout=600 unwind=10 desc="reversed(reversed(range)): get/get_lazy/get_cheap at every language-reachable index >= len" bounds="n<=5"
view_harnesses!(d2_reverse_of_reverse_len, d2_reverse_of_reverse_inb, d2_reverse_of_reverse_oob, 10, { let (a, m) = any_range(); (a.reversed().reversed(), MRev(MRev(m))) });

//@harness name=d2_repeat_of_reverse_len tier=thorough timeout=600 unwind=10 desc="repeated(reversed(range),k): len/is_empty" bounds="n<=5,k<=3"
//@harness name=d2_repeat_of_reverse_inb tier=thorough timeout=600 unwind=10 desc="repeated(reversed(range),k): get/get_lazy/get_cheap at every index < len" bounds="n<=5,k<=3"
//@harness name=d2_repeat_of_reverse_oob tier=thorough timeout=600 unwind=10 desc="repeated(reversed(range),k): get/get_lazy/get_cheap at every language-reachable index >= len" bounds="n<=5,k<=3"
view_harnesses!(d2_repeat_of_reverse_len, d2_repeat_of_reverse_inb, d2_repeat_of_reverse_oob, 10, { let (a, m) = any_range(); let k = any_reps(); (l2::Views::repeated(a.reversed(), k).unwrap(), MRep(MRev(m), k)) });

//@harness name=d2_repeat_of_repeat_len tier=thorough timeout=600 unwind=10 desc="repeated(repeated(range,k1),k2): len/is_empty" bounds="n<=5,k<=3"
//@harness name=d2_repeat_of_repeat_inb tier=thorough timeout=600 unwind=10 desc="repeated(repeated(range,k1),k2): get/get_lazy/get_cheap at every index < len" bounds="n<=5,k<=3"
//@harness name=d2_repeat_of_repeat_oob tier=thorough timeout=600 unwind=10 desc="repeated(repeated(range,k1),k2): get/get_lazy/get_cheap at every language-reachable index >= len" bounds="n<=5,k<=3"
view_harnesses!(d2_repeat_of_repeat_len, d2_repeat_of_repeat_inb, d2_repeat_of_repeat_oob, 10, { let (a, m) = any_range(); let k1 = any_reps(); let k2 = any_reps(); (l2::Views::repeated(l1::Views::repeated(a, k1).unwrap(), k2).unwrap(), MRep(MRep(m, k1), k2)) });

//@harness name=d2_slice_of_extend_linked_len tier=thorough timeout=900 unwind=10 desc="slice(linked extended(range, eager)): len/is_empty" bounds="n<=5+3, small slice args"
//@harness name=d2_slice_of_extend_linked_inb tier=thorough timeout=900 unwind=10 desc="slice(linked extended(range, eager)): get/get_lazy/get_cheap at every index < len" bounds="n<=5+3, small slice args"
//@harness name=d2_slice_of_extend_linked_oob tier=thorough timeout=900 unwind=10 desc="slice(linked extended(range, eager)): get/get_lazy/get_cheap at every language-reachable index >= len" bounds="n<=5+3, small slice args"
view_harnesses!(d2_slice_of_extend_linked_len, d2_slice_of_extend_linked_inb, d2_slice_of_extend_linked_oob, 10, { let (a, ma) = any_range(); let (b, mb) = any_eager(); kani::assume(ma.n > 0 && mb.n > 0); let (from, to, step) = any_small_slice_args(); (l1::Out::new(l1::ExtendedArray::new(a, b)).slice(from, to, NonZeroU32::new(step)), MSlice { m: MExt(ma, mb), from, to, step }) });

//@harness name=d2_reverse_of_extend_linked_len tier=thorough timeout=900 unwind=10 desc="reversed(linked extended(range, eager)): len/is_empty" bounds="n<=5+3"
//@harness name=d2_reverse_of_extend_linked_inb tier=thorough timeout=900 unwind=10 desc="reversed(linked extended(range, eager)): get/get_lazy/get_cheap at every index < len" bounds="n<=5+3"
//@harness name=d2_reverse_of_extend_linked_oob tier=thorough timeout=900 unwind=10 desc="reversed(linked extended(range, eager)): get/get_lazy/get_cheap at every language-reachable index >= len" bounds="n<=5+3"
view_harnesses!(d2_reverse_of_extend_linked_len, d2_reverse_of_extend_linked_inb, d2_reverse_of_extend_linked_oob, 10, { let (a, ma) = any_range(); let (b, mb) = any_eager(); kani::assume(ma.n > 0 && mb.n > 0); (l1::Out::new(l1::ExtendedArray::new(a, b)).reversed(), MRev(MExt(ma, mb))) });

//@harness name=d2_extend_linked_of_views_len tier=thorough timeout=900 unwind=10 desc="linked extended(reversed(range), slice(range)): len/is_empty" bounds="n<=5 each, small slice args"
//@harness name=d2_extend_linked_of_views_inb tier=thorough timeout=900 unwind=10 desc="linked extended(reversed(range), slice(range)): get/get_lazy/get_cheap at every index < len" bounds="n<=5 each, small slice args"
//@harness name=d2_extend_linked_of_views_oob tier=thorough timeout=900 unwind=10 desc="linked extended(reversed(range), slice(range)): get/get_lazy/get_cheap at every language-reachable index >= len" bounds="n<=5 each, small slice args"
view_harnesses!(d2_extend_linked_of_views_len, d2_extend_linked_of_views_inb, d2_extend_linked_of_views_oob, 10, { let (a, ma) = any_range(); let (b, mb) = any_range(); let (from, to, step) = any_small_slice_args(); let ms = MSlice { m: mb, from, to, step }; kani::assume(ma.n > 0 && ms.len() > 0); let x = l1::Out::new(l1::ReverseArray(a)); let y = b.slice(from, to, NonZeroU32::new(step)); (l2::Out::new(l2::ExtendedArray::new(x, y)), MExt(MRev(ma), ms)) });


/// Quick-tier probe for stacked views: `get` only, in and out of bounds, index <= 255.
macro_rules! view_get_small {
    ($name:ident, $unwind:literal, $build:block) => {
        #[kani::proof]
        #[kani::unwind($unwind)]
        pub fn $name() {
            let (out, m) = $build;
            let i: u8 = kani::any();
            let i = i as usize;
            let mlen = m.len();
            #[cfg(verif_playback)]
            replay_lines(&m, Some(i));
            let g = out.get(i);
            if i < mlen {
                assert!(is_num(&g, m.at(i)), "C08.get.in_bounds wrong element");
            } else {
                assert!(matches!(g, Ok(None)), "C08.get.oob index >= len must be None (out of bounds)");
            }
            kani::cover!(mlen > 0 && i == mlen, "index == len reached");
            kani::cover!(mlen > 1 && i == mlen - 1, "last element reached");
            kani::cover!(mlen > 1 && i == 0, "first element reached");
        }
    };
}

// quick-tier depth-2 probes (small box)
//@harness name=d2_slice_of_reverse_get tier=quick timeout=600 unwind=10 desc="slice(reversed(range)): get at every index 0..=255 (in and out of bounds)" bounds="n<=3, |from|,|to|<=4, step<=3, k<=3"
view_get_small!(d2_slice_of_reverse_get, 10, { let (a, m) = any_range_n(3); let (from, to, step) = any_tiny_slice_args(); (a.reversed().slice(from, to, NonZeroU32::new(step)), MSlice { m: MRev(m), from, to, step }) });

//@harness name=d2_reverse_of_slice_get tier=quick timeout=600 unwind=10 desc="reversed(slice(range)): get at every index 0..=255 (in and out of bounds)" bounds="n<=3, |from|,|to|<=4, step<=3, k<=3"
view_get_small!(d2_reverse_of_slice_get, 10, { let (a, m) = any_range_n(3); let (from, to, step) = any_tiny_slice_args(); (a.slice(from, to, NonZeroU32::new(step)).reversed(), MRev(MSlice { m, from, to, step })) });

//@harness name=d2_slice_of_slice_get tier=quick timeout=600 unwind=10 desc="slice(slice(range)): get at every index 0..=255 (in and out of bounds)" bounds="n<=3, |from|,|to|<=4, step<=3, k<=3"
view_get_small!(d2_slice_of_slice_get, 10, { let (a, m) = any_range_n(3); let (f1, t1, s1) = any_tiny_slice_args(); let (f2, t2, s2) = any_tiny_slice_args(); (a.slice(f1, t1, NonZeroU32::new(s1)).slice(f2, t2, NonZeroU32::new(s2)), MSlice { m: MSlice { m, from: f1, to: t1, step: s1 }, from: f2, to: t2, step: s2 }) });

//@harness name=d2_slice_of_repeat_get tier=quick timeout=600 unwind=10 desc="slice(repeated(range,k)): get at every index 0..=255 (in and out of bounds)" bounds="n<=3, |from|,|to|<=4, step<=3, k<=3"
view_get_small!(d2_slice_of_repeat_get, 10, { let (a, m) = any_range_n(3); let k = any_reps(); let (from, to, step) = any_tiny_slice_args(); (l1::Views::repeated(a, k).unwrap().slice(from, to, NonZeroU32::new(step)), MSlice { m: MRep(m, k), from, to, step }) });

//@harness name=d2_repeat_of_slice_get tier=quick timeout=600 unwind=10 desc="repeated(slice(range),k): get at every index 0..=255 (in and out of bounds)" bounds="n<=3, |from|,|to|<=4, step<=3, k<=3"
view_get_small!(d2_repeat_of_slice_get, 10, { let (a, m) = any_range_n(3); let k = any_reps(); let (from, to, step) = any_tiny_slice_args(); (l2::Views::repeated(a.slice(from, to, NonZeroU32::new(step)), k).unwrap(), MRep(MSlice { m, from, to, step }, k)) });

//@harness name=d2_reverse_of_repeat_get tier=quick timeout=600 unwind=10 desc="reversed(repeated(range,k)): get at every index 0..=255 (in and out of bounds)" bounds="n<=3, |from|,|to|<=4, step<=3, k<=3"
view_get_small!(d2_reverse_of_repeat_get, 10, { let (a, m) = any_range_n(3); let k = any_reps(); (l1::Views::repeated(a, k).unwrap().reversed(), MRev(MRep(m, k))) });


