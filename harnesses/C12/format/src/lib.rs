//! C12 / C04 — `stdlib/format.rs`: format-code parsing, integer rendering, value consumption; the
//! float renderers for panic-freedom only. All items are extracted verbatim.
#![allow(unused, dead_code, clippy::all, non_local_definitions)]

/// message formatting inside `bail!("...{}", ..)` is dropped by the stand-in `bail!`; the only other
/// `format!`-family use in this file is none.
//@include ../../../../prelude/bail.in
mod prelude;

pub mod error {
    use crate::format::FormatError;
    use crate::standins::ValType;
    #[derive(Debug, Clone)]
    pub enum ErrorKind {
        Format(FormatError),
        InvalidUnicodeCodepointGot(u32),
        TypeMismatch(&'static str, crate::format::Vec<ValType>, ValType),
        RuntimeError(&'static str),
        Other,
    }
    pub use ErrorKind::*;
    #[derive(Debug, Clone)]
    pub struct Error(pub ErrorKind);
    impl Error {
        pub fn new(k: ErrorKind) -> Self {
            Error(k)
        }
    }
    impl From<ErrorKind> for Error {
        fn from(k: ErrorKind) -> Self {
            Error(k)
        }
    }
    impl From<crate::prelude::num::ConvertNumValueError> for Error {
        fn from(_: crate::prelude::num::ConvertNumValueError) -> Self {
            Error(ErrorKind::Other)
        }
    }
    pub type Result<T, E = Error> = core::result::Result<T, E>;
}

pub mod standins {
    use crate::error::{Error, ErrorKind, Result};
    pub use crate::prelude::num::NumValue;
    use std::ops::Deref;

    #[derive(Debug, Clone, Copy, PartialEq, Eq)]
    pub enum ValType {
        Null,
        Bool,
        Num,
        Str,
        Arr,
        Obj,
        Func,
    }
    /// interned string stand-in: `&'static str`
    #[derive(Clone, Copy, Debug, PartialEq, Eq)]
    pub struct IStr(pub &'static str);
    impl Deref for IStr {
        type Target = str;
        fn deref(&self) -> &str {
            self.0
        }
    }
    impl IStr {
        pub fn is_empty(&self) -> bool {
            self.0.is_empty()
        }
    }
    impl From<&str> for IStr {
        fn from(s: &str) -> Self {
            IStr(unsafe { core::mem::transmute::<&str, &'static str>(s) })
        }
    }
    #[derive(Clone, Copy, Debug, PartialEq, Eq)]
    pub struct StrValue(pub IStr);
    impl StrValue {
        pub fn into_flat(self) -> IStr {
            self.0
        }
    }
    /// Values that can be formatted here: numbers, short strings, null, and an opaque token that
    /// stands for any other value (its `%s` text is a fixed token — manifestation is C05).
    #[derive(Clone, Copy, Debug, PartialEq)]
    pub enum Val {
        Null,
        Bool(bool),
        Num(NumValue),
        Str(StrValue),
        /// opaque identity, used by the consumption-order harness
        Token(u8),
    }
    impl Val {
        pub fn value_type(&self) -> ValType {
            match self {
                Val::Null => ValType::Null,
                Val::Bool(_) => ValType::Bool,
                Val::Num(_) => ValType::Num,
                Val::Str(_) => ValType::Str,
                Val::Token(_) => ValType::Obj,
            }
        }
        /// stand-in for `Val::to_string` (`%s`): strings give their content, everything else one
        /// letter identifying the value (`T0`..), so that the consumption order is observable
        pub fn to_string(self) -> Result<IStr> {
            Ok(match self {
                Val::Str(s) => s.0,
                Val::Null => IStr("null"),
                Val::Bool(true) => IStr("true"),
                Val::Bool(false) => IStr("false"),
                Val::Num(_) => IStr("N"),
                Val::Token(t) => IStr(match t {
                    0 => "A",
                    1 => "B",
                    2 => "C",
                    _ => "D",
                }),
            })
        }
    }
    /// `FromUntyped for f64 / u16`: type check + the repo's range rule for u16 (conversions.rs:
    /// an integer in 0..=65535, otherwise a type error)
    pub trait FromUntyped: Sized {
        fn from_untyped(v: Val) -> Result<Self>;
    }
    impl FromUntyped for f64 {
        fn from_untyped(v: Val) -> Result<Self> {
            match v {
                Val::Num(n) => Ok(n.get()),
                o => Err(Error(ErrorKind::TypeMismatch("number", crate::format::Vec::new(), o.value_type()))),
            }
        }
    }
    impl FromUntyped for u16 {
        fn from_untyped(v: Val) -> Result<Self> {
            match v {
                Val::Num(n) => {
                    let n = n.get();
                    if n.trunc() != n || n < 0.0 || n > 65535.0 {
                        return Err(Error(ErrorKind::TypeMismatch("u16", crate::format::Vec::new(), ValType::Num)));
                    }
                    Ok(n as u16)
                }
                o => Err(Error(ErrorKind::TypeMismatch("number", crate::format::Vec::new(), o.value_type()))),
            }
        }
    }
}

pub mod format {
    use crate::error::{Error, ErrorKind::*, Result};
    use crate::standins::{FromUntyped, IStr, Val, ValType};
    /// Result accumulators: fixed-capacity stand-ins for the heap containers (prelude/fixed.rs).
    pub type Vec<T> = crate::prelude::fixed::FixedVec<T, 24>;
    pub type String = crate::prelude::fixed::FixedString<48>;
    macro_rules! vec {
        () => { Vec::new() };
        ($($x:expr),+ $(,)?) => {{ let mut v = Vec::new(); $(v.push($x);)+ v }};
    }
    //@extract crates/jrsonnet-evaluator/src/stdlib/format.rs :: enum FormatError
    //@extract crates/jrsonnet-evaluator/src/stdlib/format.rs :: impl From<FormatError> for Error
    use FormatError::*;
    //@extract crates/jrsonnet-evaluator/src/stdlib/format.rs :: type ParseResult
    //@extract crates/jrsonnet-evaluator/src/stdlib/format.rs :: fn try_parse_mapping_key
    //@extract crates/jrsonnet-evaluator/src/stdlib/format.rs :: struct CFlags
    //@extract crates/jrsonnet-evaluator/src/stdlib/format.rs :: fn try_parse_cflags
    //@extract crates/jrsonnet-evaluator/src/stdlib/format.rs :: enum Width
    //@extract crates/jrsonnet-evaluator/src/stdlib/format.rs :: fn try_parse_field_width
    //@extract crates/jrsonnet-evaluator/src/stdlib/format.rs :: fn try_parse_precision
    //@extract crates/jrsonnet-evaluator/src/stdlib/format.rs :: fn try_parse_length_modifier
    //@extract crates/jrsonnet-evaluator/src/stdlib/format.rs :: enum ConvTypeV
    //@extract crates/jrsonnet-evaluator/src/stdlib/format.rs :: struct ConvType || s/\bv: ConvTypeV/pub v: ConvTypeV/1 || s/\bcaps: bool/pub caps: bool/1
    //@extract crates/jrsonnet-evaluator/src/stdlib/format.rs :: fn parse_conversion_type
    //@extract crates/jrsonnet-evaluator/src/stdlib/format.rs :: struct Code || s/^(\t)(mkey|cflags|width|precision|convtype|caps):/\1pub \2:/6
    //@extract crates/jrsonnet-evaluator/src/stdlib/format.rs :: fn parse_code
    //@extract crates/jrsonnet-evaluator/src/stdlib/format.rs :: enum Element
    //@extract crates/jrsonnet-evaluator/src/stdlib/format.rs :: fn parse_codes
    //@extract crates/jrsonnet-evaluator/src/stdlib/format.rs :: const NUMBERS
    //@extract crates/jrsonnet-evaluator/src/stdlib/format.rs :: fn render_integer
    //@extract crates/jrsonnet-evaluator/src/stdlib/format.rs :: fn render_decimal
    //@extract crates/jrsonnet-evaluator/src/stdlib/format.rs :: fn render_octal
    //@extract crates/jrsonnet-evaluator/src/stdlib/format.rs :: fn render_hexadecimal
    //@extract crates/jrsonnet-evaluator/src/stdlib/format.rs :: fn render_float
    //@extract crates/jrsonnet-evaluator/src/stdlib/format.rs :: fn render_float_sci
    //@extract crates/jrsonnet-evaluator/src/stdlib/format.rs :: fn format_code
    //@extract crates/jrsonnet-evaluator/src/stdlib/format.rs :: fn format_arr
}

#[cfg(kani)]
mod harnesses;
