//! C12 / C04 harnesses over the extracted `stdlib/format.rs`.
use crate::error::{Error, ErrorKind, Result};
use crate::format::*;
// explicit imports win over the glob: in this file `String`/`Vec` are std's, `FString` is the
// fixed-capacity accumulator the extracted code writes into
use std::string::String;
use std::vec::Vec;
type FString = crate::format::String;
use crate::prelude::symstr::SymStr;
use crate::standins::*;

// ================================================================================================
// (a) format-code parsing against a reference parser of
//     %[(key)][#0 +-]*[width|*][.prec|.*][hlL]*conv
// ================================================================================================
const FN: usize = 4;

#[derive(Clone, Copy, PartialEq, Debug)]
enum RW {
    Star,
    Fixed(u32),
}
#[derive(Clone, Copy, PartialEq, Debug)]
enum RElem {
    None,
    Lit { from: usize, to: usize },
    Code { key_from: usize, key_to: usize, flags: u8, width: RW, prec: Option<RW>, conv: u8 },
}
#[derive(Clone, Copy, PartialEq, Debug)]
enum RErr {
    Truncated,
    Unrecognized(u8),
}

/// reference parser; `None` width digits mean `Fixed(0)` exactly as Python/Jsonnet treat an absent width
fn ref_parse(b: &[u8; FN], n: usize) -> core::result::Result<([RElem; FN], usize), RErr> {
    let mut out = [RElem::None; FN];
    let mut cnt = 0;
    let mut i = 0;
    // at most FN elements; every iteration consumes at least one byte
    let mut guard = 0;
    while i < n && guard < FN {
        guard += 1;
        if b[i] != b'%' {
            let from = i;
            while i < n && b[i] != b'%' {
                i += 1;
            }
            out[cnt] = RElem::Lit { from, to: i };
            cnt += 1;
            continue;
        }
        i += 1; // '%'
        if i >= n {
            return Err(RErr::Truncated);
        }
        // mapping key
        let (mut kf, mut kt) = (i, i);
        if b[i] == b'(' {
            let mut j = i + 1;
            while j < n && b[j] != b')' {
                j += 1;
            }
            if j >= n {
                return Err(RErr::Truncated);
            }
            kf = i + 1;
            kt = j;
            i = j + 1;
        }
        if i >= n {
            return Err(RErr::Truncated);
        }
        // flags
        let mut flags = 0u8;
        while i < n {
            match b[i] {
                b'#' => flags |= 1,
                b'0' => flags |= 2,
                b'-' => flags |= 4,
                b' ' => flags |= 8,
                b'+' => flags |= 16,
                _ => break,
            }
            i += 1;
        }
        if i >= n {
            return Err(RErr::Truncated);
        }
        // width
        let mut width = RW::Fixed(0);
        if b[i] == b'*' {
            width = RW::Star;
            i += 1;
        } else {
            let mut w = 0u32;
            while i < n && b[i].is_ascii_digit() {
                w = w * 10 + (b[i] - b'0') as u32;
                i += 1;
            }
            width = RW::Fixed(w);
        }
        if i >= n {
            return Err(RErr::Truncated);
        }
        // precision
        let mut prec = None;
        if b[i] == b'.' {
            i += 1;
            if i >= n {
                return Err(RErr::Truncated);
            }
            if b[i] == b'*' {
                prec = Some(RW::Star);
                i += 1;
            } else {
                let mut w = 0u32;
                while i < n && b[i].is_ascii_digit() {
                    w = w * 10 + (b[i] - b'0') as u32;
                    i += 1;
                }
                prec = Some(RW::Fixed(w));
            }
        }
        if i >= n {
            return Err(RErr::Truncated);
        }
        // length modifiers
        while i < n && (b[i] == b'h' || b[i] == b'l' || b[i] == b'L') {
            i += 1;
        }
        if i >= n {
            return Err(RErr::Truncated);
        }
        let conv = b[i];
        match conv {
            b'd' | b'i' | b'u' | b'o' | b'x' | b'X' | b'e' | b'E' | b'f' | b'F' | b'g' | b'G' | b'c' | b's' | b'%' => {}
            c => return Err(RErr::Unrecognized(c)),
        }
        i += 1;
        out[cnt] = RElem::Code { key_from: kf, key_to: kt, flags, width, prec, conv };
        cnt += 1;
    }
    Ok((out, cnt))
}

fn conv_matches(c: u8, v: &ConvTypeV, caps: bool) -> bool {
    match c {
        b'd' | b'i' | b'u' => *v == ConvTypeV::Decimal && !caps,
        b'o' => *v == ConvTypeV::Octal && !caps,
        b'x' => *v == ConvTypeV::Hexadecimal && !caps,
        b'X' => *v == ConvTypeV::Hexadecimal && caps,
        b'e' => *v == ConvTypeV::Scientific && !caps,
        b'E' => *v == ConvTypeV::Scientific && caps,
        b'f' => *v == ConvTypeV::Float && !caps,
        b'F' => *v == ConvTypeV::Float && caps,
        b'g' => *v == ConvTypeV::Shorter && !caps,
        b'G' => *v == ConvTypeV::Shorter && caps,
        b'c' => *v == ConvTypeV::Char && !caps,
        b's' => *v == ConvTypeV::String && !caps,
        b'%' => *v == ConvTypeV::Percent && !caps,
        _ => false,
    }
}
fn width_matches(r: RW, w: &Width) -> bool {
    match (r, w) {
        (RW::Star, Width::Star) => true,
        (RW::Fixed(a), Width::Fixed(b)) => a == *b as u32,
        _ => false,
    }
}
fn off(base: &str, s: &str) -> usize {
    (s.as_ptr() as usize).wrapping_sub(base.as_ptr() as usize)
}

//@harness tier=thorough timeout=3600 desc="parse_codes on every ASCII format string: no panic, same element sequence / same error as a reference parser of %[(key)][flags][width][.prec][hlL]conv" bounds="every ASCII string of <= 4 bytes"
#[kani::proof]
#[kani::unwind(8)]
pub fn parse_codes_vs_reference() {
    let s = SymStr::<FN>::any_ascii();
    let text = s.as_str();
    let want = ref_parse(&s.b, s.n);
    #[cfg(verif_playback)]
    {
        println!("REPLAY-INPUT: format={:?} reference={:?}", text, want);
        // one value per conversion, so that a well-formed string formats without an arity error
        println!("REPLAY-JSONNET: std.type(std.format({}, [1, 1, 1, 1, 1, 1][:std.length(std.findSubstr(\"%\", {})) - 2 * std.length(std.findSubstr(\"%%\", {}))]))", s.jsonnet(), s.jsonnet(), s.jsonnet());
        println!("REPLAY-EXPECT: nocrash");
    }
    let got = parse_codes(text);
    match (&got, &want) {
        (Ok(v), Ok((w, cnt))) => {
            assert!(v.len() == *cnt, "C12.parse.count number of elements");
            let mut k = 0;
            while k < FN {
                if k < *cnt && k < v.len() {
                    match (&v[k], &w[k]) {
                        (Element::String(t), RElem::Lit { from, to }) => {
                            assert!(off(text, t) == *from && t.len() == to - from, "C12.parse.literal literal text copied unchanged");
                        }
                        (Element::Code(c), RElem::Code { key_from, key_to, flags, width, prec, conv }) => {
                            assert!(conv_matches(*conv, &c.convtype, c.caps), "C12.parse.conv conversion type");
                            let f = (c.cflags.alt as u8) | (c.cflags.zero as u8) << 1 | (c.cflags.left as u8) << 2 | (c.cflags.blank as u8) << 3 | (c.cflags.sign as u8) << 4;
                            assert!(f == *flags, "C12.parse.flags flag set");
                            assert!(width_matches(*width, &c.width), "C12.parse.width field width");
                            let pm = match (prec, &c.precision) {
                                (None, None) => true,
                                (Some(r), Some(w)) => width_matches(*r, w),
                                _ => false,
                            };
                            assert!(pm, "C12.parse.precision precision");
                            assert!(c.mkey.len() == key_to - key_from && (c.mkey.is_empty() || off(text, c.mkey) == *key_from), "C12.parse.key mapping key");
                        }
                        _ => assert!(false, "C12.parse.kind literal/code element kind"),
                    }
                }
                k += 1;
            }
        }
        (Err(Error(ErrorKind::Format(FormatError::TruncatedFormatCode))), Err(RErr::Truncated)) => {}
        (Err(Error(ErrorKind::Format(FormatError::UnrecognizedConversionType(c)))), Err(RErr::Unrecognized(d))) => {
            assert!(*c as u32 == *d as u32, "C12.parse.unrecognized reported conversion character");
        }
        _ => assert!(false, "C12.parse.outcome accept/reject differs from the reference parser"),
    }
    kani::cover!(matches!(want, Ok((_, 3))), "three elements reached");
    kani::cover!(matches!(want, Ok((_, 2))), "two elements reached");
    kani::cover!(matches!(want, Err(RErr::Truncated)), "truncated code reached");
    kani::cover!(matches!(want, Err(RErr::Unrecognized(_))), "unknown conversion reached");
    kani::cover!(matches!(want, Ok((w, 1)) if matches!(w[0], RElem::Code { prec: Some(RW::Star), .. })), "star precision reached");
}

//@harness tier=quick timeout=600 desc="field width / precision digits: no panic and the decimal value for every digit string" bounds="every ASCII string of <= 7 bytes handed to try_parse_field_width / try_parse_precision"
#[kani::proof]
#[kani::unwind(10)]
pub fn parse_width_digits() {
    let s = SymStr::<7>::any_ascii();
    kani::assume(s.n >= 1);
    #[cfg(verif_playback)]
    {
        println!("REPLAY-INPUT: width text={:?}", s.as_str());
        println!("REPLAY-JSONNET: std.length(std.format(\"%\" + {} , [1, 1]))", s.jsonnet());
        println!("REPLAY-EXPECT: nocrash");
        println!("REPLAY-JSONNET: std.length(std.format(\"%.\" + {} , [1, 1]))", s.jsonnet());
        println!("REPLAY-EXPECT: nocrash");
    }
    let r = try_parse_field_width(s.as_str());
    // reference value of the leading digits
    let mut w: u64 = 0;
    let mut d = 0;
    while d < 7 && d < s.n && s.b[d].is_ascii_digit() {
        w = w * 10 + (s.b[d] - b'0') as u64;
        d += 1;
    }
    match r {
        Ok((Width::Star, rest)) => assert!(s.b[0] == b'*' && rest.len() == s.n - 1, "C12.width.star"),
        Ok((Width::Fixed(v), rest)) => {
            assert!(s.b[0] != b'*' && d < s.n, "C12.width.accepts digits must be followed by more text");
            assert!(v as u64 == w, "C12.width.value decimal value of the width digits");
            assert!(w <= 65535, "C12.width.range");
            assert!(rest.len() == s.n - d, "C12.width.rest");
        }
        Err(FormatError::TruncatedFormatCode) => assert!(s.b[0] != b'*' && (d == s.n || w > 65535), "C12.width.truncated"),
        // a width that does not fit the 16-bit field is a format error (never a wrapped value)
        Err(_) => assert!(w > 65535, "C12.width.error_kind only an over-large width may be rejected"),
    }
    let _ = try_parse_precision(s.as_str());
    kani::cover!(d == 5 && w > 65535, "five-digit width above 65535 reached");
    kani::cover!(d == 0, "no digits reached");
}

// ================================================================================================
// (b) integer conversions against the std.jsonnet definition (render_int / render_hex)
// ================================================================================================
const OUTN: usize = 24;
struct Buf {
    b: [u8; OUTN],
    n: usize,
}
impl Buf {
    fn new() -> Self {
        Buf { b: [0; OUTN], n: 0 }
    }
    fn push(&mut self, c: u8) {
        if self.n < OUTN {
            self.b[self.n] = c;
        }
        self.n += 1;
    }
}
/// digits of n in radix, most significant first, into tmp; returns count
fn ref_digits(mut n: u64, radix: u64, caps: bool, tmp: &mut [u8; 8]) -> usize {
    let mut rev = [0u8; 8];
    let mut c = 0;
    if n == 0 {
        rev[0] = b'0';
        c = 1;
    }
    while n != 0 && c < 8 {
        let d = (n % radix) as u8;
        rev[c] = if d < 10 { b'0' + d } else if caps { b'A' + d - 10 } else { b'a' + d - 10 };
        n /= radix;
        c += 1;
    }
    let mut i = 0;
    while i < c {
        tmp[i] = rev[c - 1 - i];
        i += 1;
    }
    c
}
/// std.jsonnet: render_int(neg, n, min_chars, min_digits, blank, plus, radix, zero_prefix) and
/// render_hex(n, min_chars, min_digits, blank, plus, add_zerox, capitals), then padding to the
/// field width with spaces on the left (or on the right with `-`).
fn ref_format_int(out: &mut Buf, v: i64, conv: u8, alt: bool, zero: bool, left: bool, blank: bool, plus: bool, width: usize, prec: Option<usize>) {
    let neg = v <= -1;
    let n = v.unsigned_abs();
    let (radix, caps) = match conv {
        b'o' => (8, false),
        b'x' => (16, false),
        b'X' => (16, true),
        _ => (10, false),
    };
    let min_chars = if zero && !left { width } else { 0 };
    let min_digits = prec.unwrap_or(0);
    let mut tmp = [0u8; 8];
    let nd = ref_digits(n, radix, caps, &mut tmp);
    let sign_len = if neg || blank || plus { 1 } else { 0 };
    let mut body = Buf::new();
    if neg {
        body.push(b'-');
    } else if plus {
        body.push(b'+');
    } else if blank {
        body.push(b' ');
    }
    if conv == b'x' || conv == b'X' {
        // render_hex: the 0x prefix is outside the zero padding
        let zp = min_chars.saturating_sub(sign_len).saturating_sub(if alt { 2 } else { 0 });
        let zp2 = zp.max(min_digits);
        if alt {
            body.push(b'0');
            body.push(if caps { b'X' } else { b'x' });
        }
        let mut k = nd;
        while k < zp2 {
            body.push(b'0');
            k += 1;
        }
    } else {
        // render_int: the zero prefix ('0' for %#o, only when n != 0) counts as a digit
        let pref = if conv == b'o' && alt && n != 0 { 1 } else { 0 };
        let zp = min_chars.saturating_sub(sign_len);
        let zp2 = zp.max(min_digits);
        let mut k = nd + pref;
        while k < zp2 {
            body.push(b'0');
            k += 1;
        }
        if pref == 1 {
            body.push(b'0');
        }
    }
    let mut i = 0;
    while i < nd {
        body.push(tmp[i]);
        i += 1;
    }
    let pad = width.saturating_sub(body.n);
    if !left {
        let mut k = 0;
        while k < pad {
            out.push(b' ');
            k += 1;
        }
    }
    let mut i = 0;
    while i < body.n && i < OUTN {
        out.push(body.b[i]);
        i += 1;
    }
    if left {
        let mut k = 0;
        while k < pad {
            out.push(b' ');
            k += 1;
        }
    }
}

fn any_flags() -> CFlags {
    CFlags { alt: kani::any(), zero: kani::any(), left: kani::any(), blank: kani::any(), sign: kani::any() }
}
fn conv_of(c: u8) -> (ConvTypeV, bool) {
    match c {
        b'o' => (ConvTypeV::Octal, false),
        b'x' => (ConvTypeV::Hexadecimal, false),
        b'X' => (ConvTypeV::Hexadecimal, true),
        _ => (ConvTypeV::Decimal, false),
    }
}
#[cfg(verif_playback)]
fn fmt_string(f: &CFlags, width: Option<u16>, prec: Option<u16>, conv: char) -> String {
    let mut s = String::from("%");
    if f.alt {
        s.push('#');
    }
    if f.zero {
        s.push('0');
    }
    if f.left {
        s.push('-');
    }
    if f.blank {
        s.push(' ');
    }
    if f.sign {
        s.push('+');
    }
    if let Some(w) = width {
        s.push_str(&w.to_string());
    }
    if let Some(p) = prec {
        s.push('.');
        s.push_str(&p.to_string());
    }
    s.push(conv);
    s
}

macro_rules! int_conv {
    ($name:ident, $conv:literal) => {
        #[kani::proof]
        #[kani::unwind(26)]
        pub fn $name() {
            let flags = any_flags();
            let width: u16 = kani::any();
            let prec: Option<u16> = kani::any();
            kani::assume(width <= 8);
            if let Some(p) = prec {
                kani::assume(p <= 8);
            }
            let v: i32 = kani::any();
            kani::assume(v > -4096 && v < 4096);
            let (ct, caps) = conv_of($conv);
            let code = Code { mkey: "", cflags: CFlags { ..flags }, width: Width::Fixed(width), precision: prec.map(Width::Fixed), convtype: ct, caps };
            let mut want = Buf::new();
            ref_format_int(&mut want, v as i64, $conv, flags.alt, flags.zero, flags.left, flags.blank, flags.sign, width as usize, prec.map(|p| p as usize));
            #[cfg(verif_playback)]
            {
                let f = fmt_string(&flags, Some(width), prec, $conv as char);
                println!("REPLAY-INPUT: format={:?} value={}", f, v);
                println!("REPLAY-JSONNET: std.format({:?}, [{}])", f, v);
                println!("REPLAY-EXPECT: value {:?}", core::str::from_utf8(&want.b[..want.n.min(OUTN)]).unwrap());
            }
            let mut out = FString::new();
            let r = format_code(&mut out, &Val::Num(NumValue::new(v as f64).unwrap()), &code, width, prec);
            assert!(r.is_ok(), "C12.int.ok integer conversion of a number must succeed");
            let ob = out.as_bytes();
            assert!(ob.len() == want.n, "C12.int.len length of the formatted integer");
            let mut i = 0;
            while i < OUTN {
                if i < ob.len() && i < want.n {
                    assert!(ob[i] == want.b[i], "C12.int.text formatted integer text");
                }
                i += 1;
            }
            kani::cover!(v < 0 && flags.zero && !flags.left && width == 8, "zero-padded negative reached");
            kani::cover!(flags.alt && v != 0 && matches!(prec, Some(p) if p > 4), "alternate form with precision reached");
            kani::cover!(flags.left && width > 4, "left-justified reached");
        }
    };
}
//@harness name=int_decimal tier=quick timeout=900 unwind=26 desc="%d with every flag subset, width <= 8, precision none or <= 8: text equals the std.jsonnet render_int definition" bounds="|value| < 4096 (integers)"
int_conv!(int_decimal, b'd');
//@harness name=int_octal tier=quick timeout=900 unwind=26 desc="%o likewise (# prefix counted inside the zero padding)" bounds="|value| < 4096"
int_conv!(int_octal, b'o');
//@harness name=int_hex tier=quick timeout=900 unwind=26 desc="%x likewise (0x prefix outside the zero padding)" bounds="|value| < 4096"
int_conv!(int_hex, b'x');
//@harness name=int_hex_caps tier=quick timeout=900 unwind=26 desc="%X likewise" bounds="|value| < 4096"
int_conv!(int_hex_caps, b'X');

macro_rules! int_total {
    ($name:ident, $conv:literal) => {
        #[kani::proof]
        #[kani::unwind(32)]
        pub fn $name() {
            let flags = any_flags();
            let width: u16 = kani::any();
            let prec: Option<u16> = kani::any();
            // the amount of padding is the only thing large widths change; the accumulator holds 48 bytes
            kani::assume(width <= 12);
            if let Some(p) = prec {
                kani::assume(p <= 12);
            }
            let v: f64 = kani::any();
            kani::assume(v.is_finite());
            let (ct, caps) = conv_of($conv);
            let code = Code { mkey: "", cflags: flags, width: Width::Fixed(width), precision: prec.map(Width::Fixed), convtype: ct, caps };
            #[cfg(verif_playback)]
            {
                println!("REPLAY-INPUT: conv={} width={} prec={:?} value={:e}", $conv as char, width, prec, v);
                println!("REPLAY-JSONNET: std.length(std.format({:?}, [{:e}]))", fmt_string(&code.cflags, Some(width), prec, $conv as char), v);
                println!("REPLAY-EXPECT: nocrash");
            }
            let mut out = FString::new();
            let r = format_code(&mut out, &Val::Num(NumValue::new(v).unwrap()), &code, width, prec);
            assert!(r.is_ok(), "C12.int.total integer conversion of a number must succeed");
            kani::cover!(v.abs() > 1e18, "value beyond i64 reached");
            kani::cover!(v < 0.0 && v > -1.0, "negative fraction reached");
        }
    };
}
//@harness name=int_total_decimal tier=quick timeout=900 unwind=32 desc="%d never panics (casts, digit loop, u16 padding arithmetic)" bounds="value: every finite double; width, precision <= 12; every flag subset"
int_total!(int_total_decimal, b'd');
//@harness name=int_total_octal tier=quick timeout=900 unwind=32 desc="%o never panics" bounds="value: every finite double; width, precision <= 12; every flag subset"
int_total!(int_total_octal, b'o');
//@harness name=int_total_hex tier=quick timeout=900 unwind=32 desc="%x never panics" bounds="value: every finite double; width, precision <= 12; every flag subset"
int_total!(int_total_hex, b'x');

// ================================================================================================
// (c) consumption order of values
// ================================================================================================
macro_rules! consumption {
    ($name:ident, $which:literal) => {
        #[kani::proof]
        #[kani::unwind(12)]
        pub fn $name() {
            consumption_case($which);
        }
    };
}
fn consumption_case(which: u8) {
    // (template, number of values it consumes)
    let (tpl, need): (&str, usize) = match which {
        0 => ("%s%s", 2),
        1 => ("%*s", 2),
        2 => ("%%%s", 1),
        3 => ("%s", 1),
        4 => ("%.*s", 2),
        5 => ("%*.*s", 3),
        _ => ("a%sb%%", 1),
    };
    let nvals: usize = kani::any();
    kani::assume(nvals <= 3);
    let w: u8 = kani::any();
    kani::assume(w <= 3);
    // values: star arguments are the small integer w, the rest distinct tokens
    let star = Val::Num(NumValue::new(w as f64).unwrap());
    let vals_full: [Val; 3] = match which {
        1 | 4 => [star, Val::Token(0), Val::Token(1)],
        5 => [star, star, Val::Token(0)],
        _ => [Val::Token(0), Val::Token(1), Val::Token(2)],
    };
    let vals = &vals_full[..nvals];
    #[cfg(verif_playback)]
    {
        println!("REPLAY-INPUT: template={:?} nvals={} w={}", tpl, nvals, w);
        let names = ["\"A\"", "\"B\"", "\"C\""];
        let mut items: Vec<String> = Vec::new();
        let mut t = 0;
        for v in vals.iter() {
            match v {
                Val::Num(_) => items.push(w.to_string()),
                _ => {
                    items.push(names[t].to_string());
                    t += 1;
                }
            }
        }
        println!("REPLAY-JSONNET: std.format({:?}, [{}])", tpl, items.join(", "));
        if nvals == need {
            println!("REPLAY-EXPECT: nocrash");
        } else {
            println!("REPLAY-EXPECT: error");
        }
    }
    let r = format_arr(tpl, vals);
    if nvals != need {
        assert!(r.is_err(), "C12.arity too few or too many values must be an error");
    } else {
        assert!(r.is_ok(), "C12.arity.ok the exact number of values must format");
        let out = r.unwrap();
        let ob = out.as_bytes();
        let mut want = Buf::new();
        let pad = |b: &mut Buf, k: usize| {
            let mut i = 0;
            while i < k {
                b.push(b' ');
                i += 1;
            }
        };
        match which {
            0 => {
                want.push(b'A');
                want.push(b'B');
            }
            1 | 5 => {
                pad(&mut want, (w as usize).saturating_sub(1));
                want.push(b'A');
            }
            2 => {
                want.push(b'%');
                want.push(b'A');
            }
            3 | 4 => want.push(b'A'),
            _ => {
                want.push(b'a');
                want.push(b'A');
                want.push(b'b');
                want.push(b'%');
            }
        }
        assert!(ob.len() == want.n, "C12.order.len");
        let mut i = 0;
        while i < 8 {
            if i < ob.len() && i < want.n {
                assert!(ob[i] == want.b[i], "C12.order.text values are consumed left to right");
            }
            i += 1;
        }
    }
    kani::cover!(nvals < need, "too few values reached");
    kani::cover!(nvals == need, "exact number of values reached");
    kani::cover!(nvals > need || need == 3, "too many values (or the three-value template) reached");
}
//@harness name=consume_s_s tier=thorough optional=1 timeout=3600 unwind=12 desc="'%s%s' with 0..3 values: left-to-right consumption, arity errors" bounds="values: opaque tokens"
consumption!(consume_s_s, 0);
//@harness name=consume_star_s tier=thorough optional=1 timeout=3600 unwind=12 desc="'%*s': the star consumes the first value as width" bounds="width value 0..=3"
consumption!(consume_star_s, 1);
//@harness name=consume_pct_s tier=thorough optional=1 timeout=3600 unwind=12 desc="'%%%s': %% consumes no value" bounds="values: opaque tokens"
consumption!(consume_pct_s, 2);
//@harness name=consume_dotstar_s tier=thorough optional=1 timeout=3600 unwind=12 desc="'%.*s': the star precision consumes one value" bounds="precision value 0..=3"
consumption!(consume_dotstar_s, 4);
//@harness name=consume_star_dotstar_s tier=thorough optional=1 timeout=3600 unwind=12 desc="'%*.*s': width, precision, value in that order" bounds="width/precision value 0..=3"
consumption!(consume_star_dotstar_s, 5);
//@harness tier=thorough optional=1 timeout=3600 desc="'%*.*d' with two *different* star values: the first value is the width, the second the precision, the third the number" bounds="width, precision 0..=5, number 0..=99"
#[kani::proof]
#[kani::unwind(26)]
pub fn consume_star_dotstar_d() {
    let w: u8 = kani::any();
    let p: u8 = kani::any();
    let v: u8 = kani::any();
    kani::assume(w <= 5 && p <= 5 && v <= 99);
    let vals = [Val::Num(NumValue::new(w as f64).unwrap()), Val::Num(NumValue::new(p as f64).unwrap()), Val::Num(NumValue::new(v as f64).unwrap())];
    let mut want = Buf::new();
    ref_format_int(&mut want, v as i64, b'd', false, false, false, false, false, w as usize, Some(p as usize));
    #[cfg(verif_playback)]
    {
        println!("REPLAY-INPUT: width={} precision={} value={}", w, p, v);
        println!("REPLAY-JSONNET: std.format(\"%*.*d\", [{}, {}, {}])", w, p, v);
        println!("REPLAY-EXPECT: value {:?}", core::str::from_utf8(&want.b[..want.n.min(OUTN)]).unwrap());
    }
    let r = format_arr("%*.*d", &vals);
    assert!(r.is_ok(), "C12.arity.ok the exact number of values must format");
    let out = r.unwrap();
    let ob = out.as_bytes();
    assert!(ob.len() == want.n, "C12.order.star_len `*` width is consumed before `.*` precision");
    let mut i = 0;
    while i < OUTN {
        if i < ob.len() && i < want.n {
            assert!(ob[i] == want.b[i], "C12.order.star_text `*` width is consumed before `.*` precision");
        }
        i += 1;
    }
    kani::cover!(w == 5 && p == 2, "width above precision reached");
    kani::cover!(w == 1 && p == 4, "precision above width reached");
}

//@harness name=consume_lit tier=thorough optional=1 timeout=3600 unwind=12 desc="'a%sb%%': literal text copied around the value" bounds="values: opaque tokens"
consumption!(consume_lit, 6);

// ================================================================================================
// (d) float conversions: panic-freedom of the u16 / cast arithmetic
// ================================================================================================
fn float_conv(which: u8) -> (ConvTypeV, bool, u8) {
    match which {
        0 => (ConvTypeV::Float, false, b'f'),
        1 => (ConvTypeV::Scientific, false, b'e'),
        2 => (ConvTypeV::Shorter, false, b'g'),
        _ => (ConvTypeV::Scientific, true, b'E'),
    }
}
macro_rules! float_total {
    ($name:ident, $which:literal, $prec0:literal) => {
        #[kani::proof]
        #[kani::unwind(32)]
        pub fn $name() {
            let flags = any_flags();
            let width: u16 = kani::any();
            kani::assume(width <= 12);
            let prec: u16 = if $prec0 { 0 } else { kani::any() };
            kani::assume(prec <= 12 || (prec >= 300 && prec <= 320) || prec >= 65530);
            let (ct, caps, c) = float_conv($which);
            let v: f64 = kani::any();
            kani::assume(v.is_finite());
            let code = Code { mkey: "", cflags: flags, width: Width::Fixed(width), precision: Some(Width::Fixed(prec)), convtype: ct, caps };
            #[cfg(verif_playback)]
            {
                println!("REPLAY-INPUT: conv={} width={} prec={} value={:e}", c as char, width, prec, v);
                println!("REPLAY-JSONNET: std.length(std.format({:?}, [{:e}]))", fmt_string(&code.cflags, Some(width), Some(prec), c as char), v);
                println!("REPLAY-EXPECT: nocrash");
                println!("REPLAY-ROLE: {}", if prec >= 65530 { "C12.float.precision_near_u16_max" } else if prec >= 300 { "C12.float.precision_beyond_double_range" } else if prec == 0 && c == b'g' { "C12.float.g_precision_zero" } else if v.abs() > 1e15 { "C12.float.huge_value" } else { "C12.float.ordinary" });
            }
            let mut out = FString::new();
            let r = format_code(&mut out, &Val::Num(NumValue::new(v).unwrap()), &code, width, Some(prec));
            assert!(r.is_ok(), "C12.float.total float conversion of a number must succeed");
            kani::cover!(v.abs() < 1e-5 && v != 0.0, "tiny value reached");
            kani::cover!(v.abs() > 1e300, "huge value reached");
            kani::cover!($prec0 || prec >= 65530, "extreme precision reached");
        }
    };
}
//@harness name=float_f_prec0 tier=quick timeout=900 unwind=32 desc="%.0f never panics (the remainder is exact in CBMC's model when the denominator is 1)" bounds="value: every finite double; width <= 12; every flag subset"
float_total!(float_f_prec0, 0, true);
//@harness name=float_f_prec0_value tier=quick timeout=900 unwind=32 desc="%.0f of a small value prints round-half-up of |v| (std.jsonnet: whole = floor((|n| * 10^prec + 0.5) / 10^prec)), with a leading '-' exactly for negative v; the remainder is exact in CBMC's model when the denominator is 1" bounds="every finite double with |v| < 1000; no flags, no width"
#[kani::proof]
#[kani::unwind(32)]
pub fn float_f_prec0_value() {
    let v: f64 = kani::any();
    kani::assume(v.is_finite() && v.abs() < 1000.0);
    let flags = CFlags { alt: false, zero: false, left: false, blank: false, sign: false };
    let code = Code { mkey: "", cflags: flags, width: Width::Fixed(0), precision: Some(Width::Fixed(0)), convtype: ConvTypeV::Float, caps: false };
    // reference: round half up on the magnitude (exact for |v| < 2^52)
    let want = (v.abs() + 0.5).floor();
    let wi = want as u32;
    #[cfg(verif_playback)]
    {
        println!("REPLAY-INPUT: value={:e} want={}", v, wi);
        println!("REPLAY-JSONNET: std.format('%.0f', [{:e}])", v);
        println!("REPLAY-EXPECT: value \"{}{}\"", if v < 0.0 { "-" } else { "" }, wi);
        println!("REPLAY-ROLE: C12.float.f0.value");
    }
    let mut out = FString::new();
    let r = format_code(&mut out, &Val::Num(NumValue::new(v).unwrap()), &code, 0, Some(0));
    assert!(r.is_ok(), "C12.float.total float conversion of a number must succeed");
    let ob = out.as_bytes();
    let neg = v < 0.0;
    let start = if neg { 1 } else { 0 };
    assert!(ob.len() >= start + 1 && ob.len() <= start + 4, "C12.float.f0.len one to four digits after the optional sign");
    assert!(!neg || ob[0] == b'-', "C12.float.f0.sign negative values start with '-'");
    let mut got: u32 = 0;
    let mut i = 0;
    while i < 5 {
        if i >= start && i < ob.len() {
            assert!(ob[i] >= b'0' && ob[i] <= b'9', "C12.float.f0.digits only digits after the sign");
            got = got * 10 + (ob[i] - b'0') as u32;
        }
        i += 1;
    }
    assert!(got == wi, "C12.float.f0.value %.0f prints floor(|v| + 0.5)");
    kani::cover!(v == 2.5, "tie reached");
    kani::cover!(v < 0.0 && wi == 0, "negative value rounding to zero reached");
    kani::cover!(wi == 1000, "carry into a fourth digit reached");
}
//@harness name=float_e_prec0 tier=thorough optional=1 timeout=3600 unwind=32 spurious="." desc="%.0e never panics (CBMC over-approximates powf used for the mantissa: every failure must reproduce natively to count)" bounds="value: every finite double; width <= 12; every flag subset"
float_total!(float_e_prec0, 1, true);
//@harness name=float_g_prec0 tier=thorough timeout=3600 unwind=32 spurious="iv >= 0.0|render_integer receives sign" desc="%.0g never panics (the scientific branch uses powf, over-approximated by CBMC: a failure of render_integer's sign assertion counts only when it reproduces natively)" bounds="value: every finite double; width <= 12; every flag subset"
float_total!(float_g_prec0, 2, true);
macro_rules! float_f_bigprec {
    ($name:ident, $prec:literal) => {
        #[kani::proof]
        #[kani::unwind(32)]
        pub fn $name() {
            let flags = any_flags();
            let width: u16 = kani::any();
            kani::assume(width <= 12);
            // the precision is concrete: CBMC evaluates 10^p exactly for a constant exponent only
            let prec: u16 = $prec;
            let v: f64 = kani::any();
            kani::assume(v.is_finite());
            let code = Code { mkey: "", cflags: flags, width: Width::Fixed(width), precision: Some(Width::Fixed(prec)), convtype: ConvTypeV::Float, caps: false };
            #[cfg(verif_playback)]
            {
                println!("REPLAY-INPUT: conv=f width={} prec={} value={:e}", width, prec, v);
                println!("REPLAY-JSONNET: std.length(std.format({:?}, [{:e}]))", fmt_string(&code.cflags, Some(width), Some(prec), 'f'), v);
                println!("REPLAY-EXPECT: nocrash");
                println!("REPLAY-ROLE: C12.float.scale_leaves_double_range");
            }
            let mut out = FString::new();
            let r = format_code(&mut out, &Val::Num(NumValue::new(v).unwrap()), &code, width, Some(prec));
            assert!(r.is_ok(), "C12.float.total float conversion of a number must succeed");
            kani::cover!(v == 1.0, "value 1 reached");
            kani::cover!(v < 0.0, "negative value reached");
        }
    };
}
//@harness name=float_f_prec400 tier=quick timeout=600 unwind=32 desc="%.400f (10^precision is infinite in f64): must not panic" bounds="precision 400, value: every finite double, width <= 12, every flag subset"
float_f_bigprec!(float_f_prec400, 400);
//@harness name=float_f_prec65535 tier=quick timeout=600 unwind=32 desc="%.65535f: must not panic" bounds="precision 65535, value: every finite double, width <= 12, every flag subset"
float_f_bigprec!(float_f_prec65535, 65535);

//@harness name=float_f_anyprec tier=thorough optional=1 timeout=3600 unwind=32 spurious="iv >= 0.0|render_integer receives sign|capacity exceeded" desc="%f with other precisions: panic freedom of the u16/cast arithmetic; CBMC's f64 remainder is non-deterministic, so a failure of render_integer's sign assertion (or of the accumulator capacity, fed by garbage digits) counts only when it reproduces natively" bounds="precision 0..=12, 300..=320, 65530..=65535; value: every finite double"
float_total!(float_f_anyprec, 0, false);
//@harness name=float_e_anyprec tier=thorough optional=1 timeout=3600 unwind=32 spurious="iv >= 0.0|render_integer receives sign|capacity exceeded" desc="%e likewise" bounds="precision 0..=12, 300..=320, 65530..=65535; value: every finite double"
float_total!(float_e_anyprec, 1, false);
//@harness name=float_g_anyprec tier=thorough optional=1 timeout=3600 unwind=32 spurious="iv >= 0.0|render_integer receives sign|capacity exceeded" desc="%g likewise" bounds="precision 0..=12, 300..=320, 65530..=65535; value: every finite double"
float_total!(float_g_anyprec, 2, false);

//@harness tier=thorough optional=1 timeout=3600 desc="%c: a number is converted through its code point (error for non-scalar values), a one-character string is copied, anything else is an error" bounds="number: every finite double; string: every UTF-8 string <= 3 bytes"
#[kani::proof]
#[kani::unwind(8)]
pub fn char_conv_num() {
    char_conv(true);
}
//@harness tier=thorough optional=1 timeout=3600 desc="%c of a string: copied iff it has exactly one character" bounds="every UTF-8 string <= 3 bytes"
#[kani::proof]
#[kani::unwind(8)]
pub fn char_conv_str() {
    char_conv(false);
}
fn char_conv(use_num: bool) {
    let code = Code { mkey: "", cflags: CFlags::default(), width: Width::Fixed(0), precision: None, convtype: ConvTypeV::Char, caps: false };
    let mut out = FString::new();
    if use_num {
        let v: f64 = kani::any();
        kani::assume(v.is_finite());
        #[cfg(verif_playback)]
        {
            println!("REPLAY-INPUT: %c of {:e}", v);
            println!("REPLAY-JSONNET: std.length(std.format(\"%c\", [{:e}]))", v);
            println!("REPLAY-EXPECT: nocrash");
        }
        let r = format_code(&mut out, &Val::Num(NumValue::new(v).unwrap()), &code, 0, None);
        let cp = v as u32;
        let scalar = cp < 0xD800 || (cp >= 0xE000 && cp <= 0x10FFFF);
        assert!(r.is_ok() == scalar, "C12.char.num %c of a number succeeds exactly for scalar values");
        if scalar {
            assert!(out.chars().count() == 1, "C12.char.one one character is produced");
        }
        kani::cover!(!scalar, "non-scalar code point reached");
    } else {
        let s = SymStr::<3>::any_utf8();
        let mut nch = 0;
        let mut i = 0;
        while i < 3 {
            if i < s.n && (s.b[i] & 0xC0) != 0x80 {
                nch += 1;
            }
            i += 1;
        }
        #[cfg(verif_playback)]
        {
            println!("REPLAY-INPUT: %c of {:?}", s.as_str());
            println!("REPLAY-JSONNET: std.format(\"%c\", [{}])", s.jsonnet());
            if nch == 1 { println!("REPLAY-EXPECT: value {}", s.jsonnet()); } else { println!("REPLAY-EXPECT: error"); }
        }
        let r = format_code(&mut out, &Val::Str(StrValue(IStr(s.as_static()))), &code, 0, None);
        assert!(r.is_ok() == (nch == 1), "C12.char.str %c of a string succeeds exactly for one-character strings");
        if nch == 1 {
            assert!(out.as_bytes().len() == s.n, "C12.char.copy the character is copied");
        }
        kani::cover!(nch == 1 && s.n == 3, "three-byte character reached");
        kani::cover!(nch == 0, "empty string reached");
    }
}
