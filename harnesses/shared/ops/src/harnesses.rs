//! Harnesses over the extracted operator code. Doubles are fully symbolic (64 bits each), constrained
//! only to be finite — the representation invariant of `NumValue` (`NumValue::new` is the only
//! constructor, extracted too).
use crate::error::{Error, ErrorKind, Result};
use crate::operator::*;
use crate::standins::*;
use crate::types::{BinaryOpType, UnaryOpType, ValType};
use crate::val::*;
use std::string::String;

fn any_num() -> (f64, Val) {
    let a: f64 = kani::any();
    kani::assume(a.is_finite());
    (a, Val::Num(NumValue::new(a).expect("finite")))
}
fn bin(a: &Val, op: BinaryOpType, b: &Val) -> Result<Val> {
    evaluate_binary_op_normal(a, op, b)
}
fn as_bool(r: &Result<Val>) -> Option<bool> {
    match r {
        Ok(Val::Bool(b)) => Some(*b),
        _ => None,
    }
}
fn as_num(r: &Result<Val>) -> Option<f64> {
    match r {
        Ok(Val::Num(n)) => Some(n.get()),
        _ => None,
    }
}
fn is_err(r: &Result<Val>) -> bool {
    r.is_err()
}
fn safe(x: f64) -> bool {
    x >= -9007199254740991.0 && x <= 9007199254740991.0
}
#[cfg(verif_playback)]
fn lit(x: f64) -> String {
    // exact decimal rendering of a double, accepted by the jsonnet number grammar
    if x == 0.0 && x.is_sign_negative() {
        return "(-0)".to_string();
    }
    let s = std::format!("{:e}", x);
    if x < 0.0 {
        std::format!("({})", s)
    } else {
        s
    }
}
#[cfg(verif_playback)]
fn replay_bin(a: f64, op: &str, b: f64, expect: &str) {
    println!("REPLAY-INPUT: a={:e} ({:#x}) b={:e} ({:#x}) op={}", a, a.to_bits(), b, b.to_bits(), op);
    println!("REPLAY-JSONNET: {} {} {}", lit(a), op, lit(b));
    println!("REPLAY-EXPECT: {}", expect);
}

// ------------------------------------------------------------------------------------------------
// comparison coherence
// ------------------------------------------------------------------------------------------------
//@harness tier=quick timeout=300 desc="for all finite doubles a,b exactly one of a<b, a==b, a>b holds (as the language computes them)" bounds="all pairs of finite doubles (128 symbolic bits)"
#[kani::proof]
#[kani::unwind(6)]
pub fn num_trichotomy() {
    let (fa, a) = any_num();
    let (fb, b) = any_num();
    let lt = as_bool(&bin(&a, BinaryOpType::Lt, &b));
    let eq = as_bool(&bin(&a, BinaryOpType::Eq, &b));
    let gt = as_bool(&bin(&a, BinaryOpType::Gt, &b));
    #[cfg(verif_playback)]
    {
        let (l, e, g) = (fa < fb, fa == fb, fa > fb);
        replay_bin(fa, "<", fb, &std::format!("value {}", l));
        replay_bin(fa, "==", fb, &std::format!("value {}", e));
        replay_bin(fa, ">", fb, &std::format!("value {}", g));
    }
    assert!(lt.is_some() && eq.is_some() && gt.is_some(), "C09.cmp.total comparison of two numbers must not fail");
    let n = lt.unwrap() as u8 + eq.unwrap() as u8 + gt.unwrap() as u8;
    assert!(n == 1, "C09.trichotomy exactly one of a<b, a==b, a>b");
    kani::cover!(lt == Some(true), "a<b reached");
    kani::cover!(eq == Some(true) && fa.to_bits() != fb.to_bits(), "+0 == -0 reached");
    kani::cover!(gt == Some(true) && fa - fb < 1e-300, "close pair reached");
}

//@harness tier=quick timeout=300 desc="!=, <=, >= are the complements/unions of ==, <, >" bounds="all pairs of finite doubles"
#[kani::proof]
#[kani::unwind(6)]
pub fn num_cmp_complements() {
    let (fa, a) = any_num();
    let (fb, b) = any_num();
    let lt = as_bool(&bin(&a, BinaryOpType::Lt, &b)).unwrap();
    let eq = as_bool(&bin(&a, BinaryOpType::Eq, &b)).unwrap();
    let gt = as_bool(&bin(&a, BinaryOpType::Gt, &b)).unwrap();
    let ne = as_bool(&bin(&a, BinaryOpType::Neq, &b)).unwrap();
    let le = as_bool(&bin(&a, BinaryOpType::Lte, &b)).unwrap();
    let ge = as_bool(&bin(&a, BinaryOpType::Gte, &b)).unwrap();
    #[cfg(verif_playback)]
    {
        replay_bin(fa, "!=", fb, &std::format!("value {}", fa != fb));
        replay_bin(fa, "<=", fb, &std::format!("value {}", fa <= fb));
        replay_bin(fa, ">=", fb, &std::format!("value {}", fa >= fb));
        replay_bin(fa, "==", fb, &std::format!("value {}", fa == fb));
    }
    assert!(ne == !eq, "C09.neq != is the negation of ==");
    assert!(le == (lt || eq), "C09.lte <= is < or ==");
    assert!(ge == (gt || eq), "C09.gte >= is > or ==");
    assert!(le == !gt && ge == !lt, "C09.order <= is not > and >= is not <");
    kani::cover!(le && ge, "equal pair reached");
    kani::cover!(lt && !eq, "strictly less reached");
}

//@harness tier=quick timeout=300 desc="== and std.primitiveEquals on numbers are IEEE equality (reflexive, +0 == -0, nothing else)" bounds="all pairs of finite doubles"
#[kani::proof]
#[kani::unwind(6)]
pub fn num_eq_exact() {
    let (fa, a) = any_num();
    let (fb, b) = any_num();
    let eq = as_bool(&bin(&a, BinaryOpType::Eq, &b));
    let pe = primitive_equals(&a, &b);
    #[cfg(verif_playback)]
    {
        replay_bin(fa, "==", fb, &std::format!("value {}", fa == fb));
        println!("REPLAY-JSONNET: std.primitiveEquals({}, {})", lit(fa), lit(fb));
        println!("REPLAY-EXPECT: value {}", fa == fb);
    }
    assert!(eq == Some(fa == fb), "C09.eq_exact == on numbers is exact double equality");
    assert!(matches!(pe, Ok(x) if x == (fa == fb)), "C09.primitive_equals_exact");
    let refl = as_bool(&bin(&a, BinaryOpType::Eq, &a));
    assert!(refl == Some(true), "C09.eq_reflexive");
    kani::cover!(fa == fb && fa.to_bits() != fb.to_bits(), "+0/-0 reached");
    kani::cover!(fa != fb && (fa - fb).abs() <= f64::EPSILON, "pair closer than EPSILON reached");
}

// ------------------------------------------------------------------------------------------------
// arithmetic: finite result or error, never NaN/inf
// ------------------------------------------------------------------------------------------------
macro_rules! arith {
    ($name:ident, $op:ident, $sym:literal, $f:expr, $lbl:literal) => {
        #[kani::proof]
        #[kani::unwind(6)]
        pub fn $name() {
            let (fa, a) = any_num();
            let (fb, b) = any_num();
            let r = bin(&a, BinaryOpType::$op, &b);
            let want: f64 = ($f)(fa, fb);
            #[cfg(verif_playback)]
            {
                if want.is_finite() {
                    replay_bin(fa, $sym, fb, &std::format!("value {:e}", want));
                } else {
                    replay_bin(fa, $sym, fb, "error");
                }
            }
            if want.is_finite() {
                assert!(matches!(as_num(&r), Some(x) if x == want), $lbl);
            } else {
                assert!(is_err(&r), $lbl);
            }
            kani::cover!(!want.is_finite(), "overflowing operands reached");
            kani::cover!(want.is_finite() && want != 0.0, "ordinary result reached");
        }
    };
}
//@harness name=num_add tier=quick timeout=300 unwind=6 desc="a+b is Ok(IEEE sum) iff the sum is finite, else an error" bounds="all pairs of finite doubles"
arith!(num_add, Add, "+", |x: f64, y: f64| x + y, "C09.add sum is the IEEE result when finite, an error otherwise");
//@harness name=num_sub tier=quick timeout=300 unwind=6 desc="a-b is Ok(IEEE difference) iff finite, else an error" bounds="all pairs of finite doubles"
arith!(num_sub, Sub, "-", |x: f64, y: f64| x - y, "C09.sub difference is the IEEE result when finite, an error otherwise");
//@harness name=num_mul tier=quick timeout=600 unwind=6 desc="a*b is Ok(IEEE product) iff finite, else an error" bounds="all pairs of finite doubles"
arith!(num_mul, Mul, "*", |x: f64, y: f64| x * y, "C09.mul product is the IEEE result when finite, an error otherwise");

fn check_div(fa: f64, a: Val, fb: f64, b: Val) {
    let r = bin(&a, BinaryOpType::Div, &b);
    let want = if fb != 0.0 { fa / fb } else { 0.0 };
    #[cfg(verif_playback)]
    {
        if fb != 0.0 && want.is_finite() {
            replay_bin(fa, "/", fb, &std::format!("value {:e}", want));
        } else {
            replay_bin(fa, "/", fb, "error");
        }
    }
    if fb == 0.0 {
        assert!(matches!(&r, Err(Error(ErrorKind::DivisionByZero))), "C09.div.by_zero");
    } else if want.is_finite() {
        assert!(matches!(as_num(&r), Some(x) if x == want), "C09.div");
    } else {
        assert!(is_err(&r), "C09.div.overflow");
    }
}

//@harness tier=quick timeout=300 desc="a/b with b = +0 or -0 is a division-by-zero error for every a" bounds="a: every finite double, b in {+0,-0}"
#[kani::proof]
#[kani::unwind(6)]
pub fn num_div_zero() {
    let (fa, a) = any_num();
    let (fb, b) = any_num();
    kani::assume(fb == 0.0);
    check_div(fa, a, fb, b);
    kani::cover!(fb.is_sign_negative(), "division by -0 reached");
    kani::cover!(!fb.is_sign_negative() && fa < 0.0, "negative / +0 reached");
}

//@harness tier=quick timeout=600 desc="a/b for b = +-2^j: the quotient is a with its exponent lowered by j and the sign flipped accordingly (detects swapped operands, wrong operator, lost sign) without a second divider" bounds="a: every normal double, b = +-2^j with 2^j normal, quotient in the normal range"
#[kani::proof]
#[kani::unwind(6)]
pub fn num_div_pow2() {
    let (fa, a) = any_num();
    let ebits: u64 = kani::any();
    let neg: bool = kani::any();
    kani::assume(ebits >= 1 && ebits <= 2046);
    let fb = f64::from_bits((ebits << 52) | ((neg as u64) << 63));
    let b = Val::Num(NumValue::new(fb).unwrap());
    let abits = fa.to_bits();
    let aexp = (abits >> 52) & 0x7ff;
    kani::assume(aexp >= 1 && aexp <= 2046);
    // exponent of the exact quotient
    let qexp = aexp as i64 - (ebits as i64 - 1023);
    kani::assume(qexp >= 1 && qexp <= 2046);
    let want = f64::from_bits((abits & 0x800f_ffff_ffff_ffff) ^ ((neg as u64) << 63) | ((qexp as u64) << 52));
    let r = bin(&a, BinaryOpType::Div, &b);
    #[cfg(verif_playback)]
    replay_bin(fa, "/", fb, &std::format!("value {:e}", want));
    assert!(matches!(as_num(&r), Some(x) if x == want), "C09.div.pow2 a / (+-2^j)");
    kani::cover!(neg && fa < 0.0, "negative / negative reached");
    kani::cover!(ebits != 1023, "divisor other than 1 reached");
}

//@harness tier=quick timeout=600 desc="a/b never yields a non-finite number: Ok implies finite, overflow is an error" bounds="all pairs of finite doubles, b != 0"
#[kani::proof]
#[kani::unwind(6)]
pub fn num_div_finite() {
    let (fa, a) = any_num();
    let (fb, b) = any_num();
    kani::assume(fb != 0.0);
    let r = bin(&a, BinaryOpType::Div, &b);
    #[cfg(verif_playback)]
    replay_bin(fa, "/", fb, "nocrash");
    match &r {
        Ok(Val::Num(x)) => assert!(x.get().is_finite(), "C09.div.finite"),
        Ok(_) => assert!(false, "C09.div.type number / number must be a number"),
        Err(_) => {}
    }
    kani::cover!(r.is_err(), "overflowing quotient reached");
    kani::cover!(r.is_ok(), "finite quotient reached");
}

//@harness tier=thorough optional=1 timeout=3600 desc="a/b on all pairs of finite doubles (the 53-bit divider may exceed the cap: recorded as not decided, the f32-valued bound above is the decided claim)" bounds="all pairs of finite doubles"
#[kani::proof]
#[kani::unwind(6)]
pub fn num_div_full() {
    let (fa, a) = any_num();
    let (fb, b) = any_num();
    check_div(fa, a, fb, b);
    kani::cover!(fb != 0.0 && !(fa / fb).is_finite(), "overflowing quotient reached");
    kani::cover!(fb == 0.0 && fb.is_sign_negative(), "division by -0 reached");
}

//@harness tier=quick timeout=300 desc="a%b with b = +-0 is a division-by-zero error; any Ok result of % is finite" bounds="all pairs of finite doubles; the value of a finite remainder is NOT checked (CBMC over-approximates fmod)"
#[kani::proof]
#[kani::unwind(6)]
pub fn num_mod_zero() {
    let (fa, a) = any_num();
    let (fb, b) = any_num();
    let r = bin(&a, BinaryOpType::Mod, &b);
    #[cfg(verif_playback)]
    {
        if fb == 0.0 {
            replay_bin(fa, "%", fb, "error");
        } else {
            replay_bin(fa, "%", fb, "nocrash");
        }
    }
    if fb == 0.0 {
        assert!(matches!(&r, Err(Error(ErrorKind::DivisionByZero))), "C09.mod.by_zero");
    }
    if let Some(x) = as_num(&r) {
        assert!(x.is_finite(), "C09.mod.finite");
    }
    kani::cover!(fb == 0.0, "modulo by zero reached");
    kani::cover!(fb != 0.0, "ordinary modulo reached");
}

// ------------------------------------------------------------------------------------------------
// bitwise and shifts
// ------------------------------------------------------------------------------------------------
macro_rules! bitwise {
    ($name:ident, $op:ident, $sym:literal, $f:expr, $lbl:literal) => {
        #[kani::proof]
        #[kani::unwind(6)]
        pub fn $name() {
            let (fa, a) = any_num();
            let (fb, b) = any_num();
            let r = bin(&a, BinaryOpType::$op, &b);
            let ok = safe(fa) && safe(fb);
            let want = ($f)(fa as i64, fb as i64) as f64;
            #[cfg(verif_playback)]
            {
                if ok {
                    replay_bin(fa, $sym, fb, &std::format!("value {:e}", want));
                } else {
                    replay_bin(fa, $sym, fb, "error");
                }
            }
            if ok {
                assert!(matches!(as_num(&r), Some(x) if x == want), $lbl);
            } else {
                assert!(is_err(&r), $lbl);
            }
            kani::cover!(ok && fa < 0.0 && fa != (fa as i64) as f64, "negative fractional operand reached");
            kani::cover!(!ok, "unsafe operand reached");
        }
    };
}
//@harness name=num_bitand tier=quick timeout=300 unwind=6 desc="a&b acts on the truncated integer values; error iff an operand is outside +-(2^53-1)" bounds="all pairs of finite doubles"
bitwise!(num_bitand, BitAnd, "&", |x: i64, y: i64| x & y, "C09.bitand acts on the integer values; an operand outside the safe-integer range is an error");
//@harness name=num_bitor tier=quick timeout=300 unwind=6 desc="a|b, same rule" bounds="all pairs of finite doubles"
bitwise!(num_bitor, BitOr, "|", |x: i64, y: i64| x | y, "C09.bitor acts on the integer values; an operand outside the safe-integer range is an error");
//@harness name=num_bitxor tier=quick timeout=300 unwind=6 desc="a^b, same rule" bounds="all pairs of finite doubles"
bitwise!(num_bitxor, BitXor, "^", |x: i64, y: i64| x ^ y, "C09.bitxor acts on the integer values; an operand outside the safe-integer range is an error");

//@harness tier=quick timeout=600 desc="a<<b: error for negative count, for either operand outside the safe range, and when the mathematical result does not fit i64; otherwise (a_int * 2^(b_int mod 64))" bounds="all pairs of finite doubles"
#[kani::proof]
#[kani::unwind(6)]
pub fn num_shl() {
    let (fa, a) = any_num();
    let (fb, b) = any_num();
    let r = bin(&a, BinaryOpType::Lhs, &b);
    let ok_operands = safe(fa) && safe(fb) && !(fb < 0.0);
    let base = fa as i64;
    let exp = if ok_operands { ((fb as i64) % 64) as u32 } else { 0 };
    let wide = (base as i128) << exp;
    let fits = wide >= i64::MIN as i128 && wide <= i64::MAX as i128;
    #[cfg(verif_playback)]
    {
        if ok_operands && fits {
            replay_bin(fa, "<<", fb, &std::format!("value {:e}", (wide as i64) as f64));
        } else {
            replay_bin(fa, "<<", fb, "error");
        }
        println!("REPLAY-ROLE: {}", if !ok_operands { "C09.shl.operands" } else if !fits && base < 0 { "C09.shl.overflow.negative_base" } else if !fits { "C09.shl.overflow" } else { "C09.shl.value" });
    }
    if !ok_operands {
        assert!(is_err(&r), "C09.shl.operands negative count or unsafe operand must be an error");
    } else if !fits {
        assert!(is_err(&r), "C09.shl.overflow left shift that would overflow must be an error");
    } else {
        assert!(matches!(as_num(&r), Some(x) if x == (wide as i64) as f64), "C09.shl.value");
    }
    kani::cover!(ok_operands && !fits && base < 0, "overflowing shift of a negative base reached");
    kani::cover!(ok_operands && fits && exp == 63, "shift by 63 reached");
    kani::cover!(ok_operands && fb >= 64.0, "count >= 64 reached");
}

//@harness tier=quick timeout=600 desc="a>>b: error for negative count and for either operand outside the safe range; otherwise arithmetic shift of a_int by (b_int mod 64)" bounds="all pairs of finite doubles"
#[kani::proof]
#[kani::unwind(6)]
pub fn num_shr() {
    let (fa, a) = any_num();
    let (fb, b) = any_num();
    let r = bin(&a, BinaryOpType::Rhs, &b);
    let ok_operands = safe(fa) && safe(fb) && !(fb < 0.0);
    let want = if ok_operands { ((fa as i64) >> (((fb as i64) % 64) as u32)) as f64 } else { 0.0 };
    #[cfg(verif_playback)]
    {
        if ok_operands {
            replay_bin(fa, ">>", fb, &std::format!("value {:e}", want));
        } else {
            replay_bin(fa, ">>", fb, "error");
        }
        println!("REPLAY-ROLE: {}", if !safe(fb) { "C09.shr.count_unsafe" } else if !ok_operands { "C09.shr.operands" } else { "C09.shr.value" });
    }
    if !ok_operands {
        assert!(is_err(&r), "C09.shr.operands negative count or unsafe operand must be an error");
    } else {
        assert!(matches!(as_num(&r), Some(x) if x == want), "C09.shr.value");
    }
    kani::cover!(safe(fa) && !safe(fb) && fb > 0.0, "huge positive count reached");
    kani::cover!(ok_operands && fa < 0.0 && fb >= 64.0, "negative base, count >= 64 reached");
}

// ------------------------------------------------------------------------------------------------
// unary operators on numbers
// ------------------------------------------------------------------------------------------------
//@harness tier=quick timeout=300 desc="unary - + ~ on a number: -a, a, !(a_int) for safe a; results are finite; ! on a number is an error" bounds="all finite doubles"
#[kani::proof]
#[kani::unwind(6)]
pub fn num_unary() {
    let (fa, a) = any_num();
    let neg = evaluate_unary_op(UnaryOpType::Minus, &a);
    let pos = evaluate_unary_op(UnaryOpType::Plus, &a);
    let bnot = evaluate_unary_op(UnaryOpType::BitNot, &a);
    let not = evaluate_unary_op(UnaryOpType::Not, &a);
    #[cfg(verif_playback)]
    {
        println!("REPLAY-INPUT: a={:e} ({:#x})", fa, fa.to_bits());
        println!("REPLAY-JSONNET: -{}", lit(fa));
        println!("REPLAY-EXPECT: value {:e}", -fa);
        if safe(fa) {
            println!("REPLAY-JSONNET: ~{}", lit(fa));
            println!("REPLAY-EXPECT: value {:e}", !(fa as i64) as f64);
        }
        println!("REPLAY-JSONNET: !{}", lit(fa));
        println!("REPLAY-EXPECT: error");
    }
    assert!(matches!(as_num(&neg), Some(x) if x == -fa), "C09.neg");
    assert!(matches!(as_num(&pos), Some(x) if x == fa), "C09.pos");
    if safe(fa) {
        assert!(matches!(as_num(&bnot), Some(x) if x == !(fa as i64) as f64), "C09.bitnot");
    }
    if let Some(x) = as_num(&bnot) {
        assert!(x.is_finite(), "C09.bitnot.finite");
    }
    assert!(is_err(&not), "C09.not_on_number logical not of a number must be an error");
    kani::cover!(safe(fa) && fa < 0.0, "negative safe operand reached");
    kani::cover!(!safe(fa), "unsafe operand reached");
}

// ------------------------------------------------------------------------------------------------
// NumValue representation
// ------------------------------------------------------------------------------------------------
//@harness tier=quick timeout=300 desc="NumValue::new accepts exactly the finite doubles; cmp/eq/partial_cmp agree with IEEE order on them" bounds="all doubles (incl. NaN/inf for new)"
#[kani::proof]
#[kani::unwind(6)]
pub fn numvalue_repr() {
    let x: f64 = kani::any();
    let n = NumValue::new(x);
    assert!(n.is_some() == x.is_finite(), "C09.numvalue.new finite <=> Some");
    let (fa, _) = any_num();
    let (fb, _) = any_num();
    let (a, b) = (NumValue::new(fa).unwrap(), NumValue::new(fb).unwrap());
    use std::cmp::Ordering::*;
    let c = a.cmp(&b);
    assert!((c == Less) == (fa < fb) && (c == Equal) == (fa == fb) && (c == Greater) == (fa > fb), "C09.numvalue.cmp");
    assert!((a == b) == (fa == fb), "C09.numvalue.eq");
    assert!(a.partial_cmp(&b) == Some(c), "C09.numvalue.partial_cmp");
    kani::cover!(x.is_nan(), "NaN candidate reached");
    kani::cover!(x.is_infinite(), "infinite candidate reached");
    kani::cover!(c == Equal && fa.to_bits() != fb.to_bits(), "+0/-0 reached");
}

// ================================================================================================
// C01 / C13: the operator type table and the equality functions over all value kinds
// ================================================================================================
#[derive(Clone, Copy, PartialEq, Debug)]
enum Kind {
    Null,
    Bool,
    Num,
    Str,
    Arr,
    Obj,
    Func,
}
fn any_kind() -> Kind {
    let k: u8 = kani::any();
    kani::assume(k < 7);
    match k {
        0 => Kind::Null,
        1 => Kind::Bool,
        2 => Kind::Num,
        3 => Kind::Str,
        4 => Kind::Arr,
        5 => Kind::Obj,
        _ => Kind::Func,
    }
}
/// a value of the given kind with symbolic content (numbers: small integers; strings: <= 2 ASCII
/// letters; arrays: <= 1 number; objects/functions: distinct opaque tokens)
fn any_val_of(k: Kind, id: u8) -> Val {
    match k {
        Kind::Null => Val::Null,
        Kind::Bool => Val::Bool(kani::any()),
        Kind::Num => {
            let n: i8 = kani::any();
            Val::Num(NumValue::new(n as f64).unwrap())
        }
        Kind::Str => {
            let b: [u8; 2] = kani::any();
            let n: usize = kani::any();
            kani::assume(n <= 2 && b[0] >= b'a' && b[0] <= b'c' && b[1] >= b'a' && b[1] <= b'c');
            Val::Str(StrValue(IStr::from_bytes(&b[..n])))
        }
        Kind::Arr => {
            let n: u8 = kani::any();
            kani::assume(n <= 1);
            let e: i8 = kani::any();
            Val::Arr(ArrValue { e: [Prim::Num(e as f64), Prim::Null], n, id })
        }
        Kind::Obj => Val::Obj(ObjValue(id)),
        Kind::Func => Val::Func(FuncVal(id)),
    }
}
/// kinds without arrays: used on one side where array/array would make the extracted code recurse
fn any_kind_no_arr() -> Kind {
    let k: u8 = kani::any();
    kani::assume(k < 6);
    match k {
        0 => Kind::Null,
        1 => Kind::Bool,
        2 => Kind::Num,
        3 => Kind::Str,
        4 => Kind::Obj,
        _ => Kind::Func,
    }
}
fn any_kind_no_str() -> Kind {
    let k: u8 = kani::any();
    kani::assume(k < 6);
    match k {
        0 => Kind::Null,
        1 => Kind::Bool,
        2 => Kind::Num,
        3 => Kind::Arr,
        4 => Kind::Obj,
        _ => Kind::Func,
    }
}
fn any_binop() -> BinaryOpType {
    use BinaryOpType::*;
    let k: u8 = kani::any();
    kani::assume(k < 19);
    [Mul, Div, Mod, Add, Sub, Lhs, Rhs, Lt, Gt, Lte, Gte, BitAnd, BitOr, BitXor, Eq, Neq, And, Or, In][k as usize]
}
/// Does the Jsonnet operator table define `a op b` for these operand kinds? (value errors such as
/// division by zero or overflow are a different matter and are excluded by the operand ranges:
/// numbers are small integers, shifts use non-negative small counts)
fn defined(op: BinaryOpType, a: Kind, b: Kind) -> Option<bool> {
    use BinaryOpType::*;
    use Kind::*;
    Some(match op {
        Eq | Neq => !(a == Func && b == Func),
        Lt | Gt | Lte | Gte => (a == Num && b == Num) || (a == Str && b == Str) || (a == Arr && b == Arr),
        In => a == Str && b == Obj,
        And | Or => a == Bool && b == Bool,
        Add => {
            if a == Str || b == Str {
                // string coercion of the other operand is manifestation (C05): functions are out of the box
                if a == Func || b == Func {
                    return None;
                }
                true
            } else {
                (a == Num && b == Num) || (a == Arr && b == Arr) || (a == Obj && b == Obj)
            }
        }
        Sub | BitAnd | BitOr | BitXor => a == Num && b == Num,
        Lhs | Rhs => {
            if a == Num && b == Num {
                return None; // value-dependent (negative counts, overflow): num_shl / num_shr
            }
            false
        }
        Div => {
            if a == Num && b == Num {
                return None; // value-dependent (zero divisor): num_div_*
            }
            false
        }
        Mul => {
            if (a == Str && b == Num) || (a == Num && b == Str) {
                return None; // jrsonnet extension (string repetition), not part of the table checked here
            }
            a == Num && b == Num
        }
        Mod => {
            if a == Str || (a == Num && b == Num) {
                return None; // string formatting is C12; numeric modulo is value-dependent
            }
            false
        }
    })
}
#[cfg(verif_playback)]
fn jsonnet_of(v: &Val) -> String {
    match v {
        Val::Null => "null".to_string(),
        Val::Bool(b) => b.to_string(),
        Val::Num(n) => std::format!("({})", n.get()),
        Val::Str(s) => std::format!("\"{}\"", core::str::from_utf8(s.0.as_bytes()).unwrap()),
        Val::Arr(a) => {
            if a.n == 0 { "[]".to_string() } else { match a.e[0] { Prim::Num(x) => std::format!("[{}]", x), _ => "[null]".to_string() } }
        }
        Val::Obj(_) => "{}".to_string(),
        Val::Func(_) => "(function(x) x)".to_string(),
    }
}
#[cfg(verif_playback)]
fn sym(op: BinaryOpType) -> &'static str {
    use BinaryOpType::*;
    match op { Mul => "*", Div => "/", Mod => "%", Add => "+", Sub => "-", Lhs => "<<", Rhs => ">>", Lt => "<", Gt => ">", Lte => "<=", Gte => ">=", BitAnd => "&", BitOr => "|", BitXor => "^", Eq => "==", Neq => "!=", And => "&&", Or => "||", In => "in" }
}

/// `side`: 0 = both operands of any kind; 1 = arrays only on the left; 2 = arrays only on the right
/// (array/array comparison and equality recurse into the elements and are not decided within the caps, so
/// the six comparison rows come as two harnesses each in which that arm is syntactically unreachable);
/// 3 = no strings (the `*` row: string repetition is a jrsonnet extension outside the table)
fn op_table_case(op: BinaryOpType, side: u8) {
    let (ka, kb) = match side {
        1 => (any_kind(), any_kind_no_arr()),
        2 => (any_kind_no_arr(), any_kind()),
        3 => (any_kind_no_str(), any_kind_no_str()),
        _ => (any_kind(), any_kind()),
    };
    let a = any_val_of(ka, 1);
    let b = any_val_of(kb, 2);
    let want = defined(op, ka, kb);
    #[cfg(verif_playback)]
    {
        println!("REPLAY-INPUT: {:?} {:?} {:?}  a={:?} b={:?} defined={:?}", ka, op, kb, a, b, want);
        if !(ka == Kind::Bool && matches!(op, BinaryOpType::And | BinaryOpType::Or)) {
            println!("REPLAY-JSONNET: std.type({} {} {})", jsonnet_of(&a), sym(op), jsonnet_of(&b));
            match want { Some(true) => println!("REPLAY-EXPECT: nocrash"), Some(false) => println!("REPLAY-EXPECT: error"), None => println!("REPLAY-EXPECT: nocrash") }
        }
    }
    let r = bin(&a, op, &b);
    if let Some(w) = want {
        assert!(r.is_ok() == w, "C01.op_table an operator application fails exactly when the operator table does not define it for the operand types");
    }
    if r.is_ok() && matches!(op, BinaryOpType::Eq | BinaryOpType::Neq | BinaryOpType::Lt | BinaryOpType::Gt | BinaryOpType::Lte | BinaryOpType::Gte | BinaryOpType::And | BinaryOpType::Or | BinaryOpType::In) {
        assert!(as_bool(&r).is_some(), "C01.op_result_type comparison and logic operators yield booleans");
    }
    kani::cover!(want == Some(false) && ka == kb, "same-kind operands rejected reached");
    kani::cover!(matches!(op, BinaryOpType::Eq | BinaryOpType::Neq) || (want == Some(false) && ka != kb), "mixed-kind operands rejected reached");
    let _ = side;
}
macro_rules! op_table {
    ($name:ident, $op:ident, $side:literal) => {
        #[kani::proof]
        #[kani::unwind(3)]
        pub fn $name() {
            op_table_case(BinaryOpType::$op, $side);
        }
    };
}
//@harness name=optab_mul tier=quick timeout=600 unwind=3 desc="operator type table row `*`: for every pair of operand kinds the application fails exactly when the Jsonnet operator table does not define it" bounds="7x7 operand kinds (no string operands: string repetition is a jrsonnet extension outside the table); numbers: integers -128..=127; strings: <= 2 letters of a,b,c; arrays: <= 1 number; objects/functions: opaque"
op_table!(optab_mul, Mul, 3);
//@harness name=optab_div tier=quick timeout=600 unwind=3 desc="operator type table row `/`: for every pair of operand kinds the application fails exactly when the Jsonnet operator table does not define it" bounds="7x7 operand kinds; numbers: integers -128..=127; strings: <= 2 letters of a,b,c; arrays: <= 1 number; objects/functions: opaque"
op_table!(optab_div, Div, 0);
//@harness name=optab_mod tier=quick timeout=600 unwind=3 desc="operator type table row `%`: for every pair of operand kinds the application fails exactly when the Jsonnet operator table does not define it" bounds="7x7 operand kinds; numbers: integers -128..=127; strings: <= 2 letters of a,b,c; arrays: <= 1 number; objects/functions: opaque"
op_table!(optab_mod, Mod, 0);
//@harness name=optab_add tier=quick timeout=600 unwind=3 desc="operator type table row `+`: for every pair of operand kinds the application fails exactly when the Jsonnet operator table does not define it" bounds="7x7 operand kinds; numbers: integers -128..=127; strings: <= 2 letters of a,b,c; arrays: <= 1 number; objects/functions: opaque"
op_table!(optab_add, Add, 0);
//@harness name=optab_sub tier=quick timeout=600 unwind=3 desc="operator type table row `-`: for every pair of operand kinds the application fails exactly when the Jsonnet operator table does not define it" bounds="7x7 operand kinds; numbers: integers -128..=127; strings: <= 2 letters of a,b,c; arrays: <= 1 number; objects/functions: opaque"
op_table!(optab_sub, Sub, 0);
//@harness name=optab_shl tier=quick timeout=600 unwind=3 desc="operator type table row `<<`: for every pair of operand kinds the application fails exactly when the Jsonnet operator table does not define it" bounds="7x7 operand kinds; numbers: integers -128..=127; strings: <= 2 letters of a,b,c; arrays: <= 1 number; objects/functions: opaque"
op_table!(optab_shl, Lhs, 0);
//@harness name=optab_shr tier=quick timeout=600 unwind=3 desc="operator type table row `>>`: for every pair of operand kinds the application fails exactly when the Jsonnet operator table does not define it" bounds="7x7 operand kinds; numbers: integers -128..=127; strings: <= 2 letters of a,b,c; arrays: <= 1 number; objects/functions: opaque"
op_table!(optab_shr, Rhs, 0);
//@harness name=optab_bitand tier=quick timeout=600 unwind=3 desc="operator type table row `&`: for every pair of operand kinds the application fails exactly when the Jsonnet operator table does not define it" bounds="7x7 operand kinds; numbers: integers -128..=127; strings: <= 2 letters of a,b,c; arrays: <= 1 number; objects/functions: opaque"
op_table!(optab_bitand, BitAnd, 0);
//@harness name=optab_bitor tier=quick timeout=600 unwind=3 desc="operator type table row `|`: for every pair of operand kinds the application fails exactly when the Jsonnet operator table does not define it" bounds="7x7 operand kinds; numbers: integers -128..=127; strings: <= 2 letters of a,b,c; arrays: <= 1 number; objects/functions: opaque"
op_table!(optab_bitor, BitOr, 0);
//@harness name=optab_bitxor tier=quick timeout=600 unwind=3 desc="operator type table row `^`: for every pair of operand kinds the application fails exactly when the Jsonnet operator table does not define it" bounds="7x7 operand kinds; numbers: integers -128..=127; strings: <= 2 letters of a,b,c; arrays: <= 1 number; objects/functions: opaque"
op_table!(optab_bitxor, BitXor, 0);
//@harness name=optab_and tier=quick timeout=600 unwind=3 desc="operator type table row `&&`: for every pair of operand kinds the application fails exactly when the Jsonnet operator table does not define it" bounds="7x7 operand kinds; numbers: integers -128..=127; strings: <= 2 letters of a,b,c; arrays: <= 1 number; objects/functions: opaque"
op_table!(optab_and, And, 0);
//@harness name=optab_or tier=quick timeout=600 unwind=3 desc="operator type table row `||`: for every pair of operand kinds the application fails exactly when the Jsonnet operator table does not define it" bounds="7x7 operand kinds; numbers: integers -128..=127; strings: <= 2 letters of a,b,c; arrays: <= 1 number; objects/functions: opaque"
op_table!(optab_or, Or, 0);
//@harness name=optab_in tier=quick timeout=600 unwind=3 desc="operator type table row `in`: for every pair of operand kinds the application fails exactly when the Jsonnet operator table does not define it" bounds="7x7 operand kinds; numbers: integers -128..=127; strings: <= 2 letters of a,b,c; arrays: <= 1 number; objects/functions: opaque"
op_table!(optab_in, In, 0);
/// one (operator, left kind, right kind) cell with *concrete* kinds: the value constructors and the
/// operator's `match` then fold at symbolic-execution time, which keeps the recursive array arms of
/// `equals` / `evaluate_compare_op` out of the formula
fn op_cell(op: BinaryOpType, ka: Kind, kb: Kind) -> (bool, bool) {
    let a = any_val_of(ka, 1);
    let b = any_val_of(kb, 2);
    let want = defined(op, ka, kb);
    let r = bin(&a, op, &b);
    #[cfg(verif_playback)]
    {
        if let Some(w) = want {
            if r.is_ok() != w {
                println!("REPLAY-INPUT: {:?} {:?} {:?}  a={:?} b={:?} defined={:?}", ka, op, kb, a, b, want);
                println!("REPLAY-JSONNET: std.type({} {} {})", jsonnet_of(&a), sym(op), jsonnet_of(&b));
                println!("REPLAY-EXPECT: {}", if w { "nocrash" } else { "error" });
            }
        }
    }
    if let Some(w) = want {
        assert!(r.is_ok() == w, "C01.op_table an operator application fails exactly when the operator table does not define it for the operand types");
    }
    if r.is_ok() {
        assert!(as_bool(&r).is_some(), "C01.op_result_type comparison and logic operators yield booleans");
    }
    (want == Some(true), want == Some(false))
}
macro_rules! op_row_cells {
    ($name:ident, $op:ident, $unwind:literal) => {
        #[kani::proof]
        #[kani::unwind($unwind)]
        pub fn $name() {
            use Kind::*;
            let op = BinaryOpType::$op;
            let mut acc = false;
            let mut rej = false;
            // all 48 kind pairs except array/array
            macro_rules! cell { ($a:ident, $b:ident) => {{ let (x, y) = op_cell(op, $a, $b); acc |= x; rej |= y; }}; }
            macro_rules! row { ($a:ident) => { cell!($a, Null); cell!($a, Bool); cell!($a, Num); cell!($a, Str); cell!($a, Obj); cell!($a, Func); }; }
            row!(Null);
            row!(Bool);
            row!(Num);
            row!(Str);
            row!(Obj);
            row!(Func);
            row!(Arr);
            cell!(Null, Arr);
            cell!(Bool, Arr);
            cell!(Num, Arr);
            cell!(Str, Arr);
            cell!(Obj, Arr);
            cell!(Func, Arr);
            kani::cover!(acc, "a defined cell reached");
            kani::cover!(rej || matches!(op, BinaryOpType::Eq | BinaryOpType::Neq), "a rejected cell reached");
        }
    };
}
//@harness name=optab_lt tier=quick timeout=900 unwind=3 desc="operator type table row `<`: every cell" bounds="48 concrete pairs of operand kinds (all but array/array) with symbolic contents; numbers: integers -128..=127; strings: <= 2 letters of a,b,c; arrays: <= 1 number; objects/functions: opaque"
op_row_cells!(optab_lt, Lt, 3);
//@harness name=optab_gt tier=quick timeout=900 unwind=3 desc="operator type table row `>`: every cell" bounds="48 concrete pairs of operand kinds (all but array/array) with symbolic contents; numbers: integers -128..=127; strings: <= 2 letters of a,b,c; arrays: <= 1 number; objects/functions: opaque"
op_row_cells!(optab_gt, Gt, 3);
//@harness name=optab_lte tier=quick timeout=900 unwind=3 desc="operator type table row `<=`: every cell" bounds="48 concrete pairs of operand kinds (all but array/array) with symbolic contents; numbers: integers -128..=127; strings: <= 2 letters of a,b,c; arrays: <= 1 number; objects/functions: opaque"
op_row_cells!(optab_lte, Lte, 3);
//@harness name=optab_gte tier=quick timeout=900 unwind=3 desc="operator type table row `>=`: every cell" bounds="48 concrete pairs of operand kinds (all but array/array) with symbolic contents; numbers: integers -128..=127; strings: <= 2 letters of a,b,c; arrays: <= 1 number; objects/functions: opaque"
op_row_cells!(optab_gte, Gte, 3);
//@harness name=optab_eq tier=quick timeout=900 unwind=6 desc="operator type table row `==`: every cell" bounds="48 concrete pairs of operand kinds (all but array/array) with symbolic contents; numbers: integers -128..=127; strings: <= 2 letters of a,b,c; arrays: <= 1 number; objects/functions: opaque"
op_row_cells!(optab_eq, Eq, 6);
//@harness name=optab_neq tier=quick timeout=900 unwind=6 desc="operator type table row `!=`: every cell" bounds="48 concrete pairs of operand kinds (all but array/array) with symbolic contents; numbers: integers -128..=127; strings: <= 2 letters of a,b,c; arrays: <= 1 number; objects/functions: opaque"
op_row_cells!(optab_neq, Neq, 6);

//@harness tier=thorough optional=1 timeout=3600 desc="array/array comparison and equality: element-wise, shorter array first on a common prefix" bounds="arrays of <= 1 small number each, the six comparison operators"
#[kani::proof]
#[kani::unwind(3)]
pub fn array_compare() {
    let a = any_val_of(Kind::Arr, 1);
    let b = any_val_of(Kind::Arr, 2);
    let which: u8 = kani::any();
    kani::assume(which < 6);
    let op = [BinaryOpType::Lt, BinaryOpType::Gt, BinaryOpType::Lte, BinaryOpType::Gte, BinaryOpType::Eq, BinaryOpType::Neq][which as usize];
    // reference: lexicographic order on the element sequences
    let (xa, xb) = match (&a, &b) {
        (Val::Arr(x), Val::Arr(y)) => (*x, *y),
        _ => unreachable!(),
    };
    let ea = if xa.n == 1 { match xa.e[0] { Prim::Num(v) => Some(v), _ => None } } else { None };
    let eb = if xb.n == 1 { match xb.e[0] { Prim::Num(v) => Some(v), _ => None } } else { None };
    let ord = match (ea, eb) {
        (None, None) => core::cmp::Ordering::Equal,
        (None, Some(_)) => core::cmp::Ordering::Less,
        (Some(_), None) => core::cmp::Ordering::Greater,
        (Some(p), Some(q)) => p.partial_cmp(&q).unwrap(),
    };
    let want = match which {
        0 => ord.is_lt(),
        1 => ord.is_gt(),
        2 => ord.is_le(),
        3 => ord.is_ge(),
        4 => ord.is_eq(),
        _ => ord.is_ne(),
    };
    #[cfg(verif_playback)]
    {
        println!("REPLAY-INPUT: a={:?} b={:?} op={:?}", a, b, op);
        println!("REPLAY-JSONNET: {} {} {}", jsonnet_of(&a), sym(op), jsonnet_of(&b));
        println!("REPLAY-EXPECT: value {}", want);
    }
    let r = bin(&a, op, &b);
    assert!(as_bool(&r) == Some(want), "C01.array_compare arrays compare element-wise, a proper prefix is smaller");
    kani::cover!(xa.n == 1 && xb.n == 1 && ord.is_eq(), "equal one-element arrays reached");
    kani::cover!(xa.n == 0 && xb.n == 1, "prefix case reached");
}

fn equality_cell(ka: Kind, kb: Kind) {
    let a = any_val_of(ka, 1);
    let b = any_val_of(kb, 2);
    let eq = bin(&a, BinaryOpType::Eq, &b);
    let ne = bin(&a, BinaryOpType::Neq, &b);
    let pe = primitive_equals(&a, &b);
    #[cfg(verif_playback)]
    {
        println!("REPLAY-INPUT: a={:?} b={:?}", a, b);
        println!("REPLAY-JSONNET: std.type({} == {})", jsonnet_of(&a), jsonnet_of(&b));
        println!("REPLAY-EXPECT: {}", if ka == Kind::Func && kb == Kind::Func { "error" } else { "nocrash" });
        println!("REPLAY-JSONNET: std.primitiveEquals({}, {})", jsonnet_of(&a), jsonnet_of(&b));
        let prim = match (&a, &b) {
            (Val::Null, Val::Null) => Some(true),
            (Val::Bool(x), Val::Bool(y)) => Some(x == y),
            (Val::Num(x), Val::Num(y)) => Some(x.get() == y.get()),
            (Val::Str(x), Val::Str(y)) => Some(x.0.as_bytes() == y.0.as_bytes()),
            _ => None,
        };
        if ka != kb {
            println!("REPLAY-EXPECT: value false");
        } else if let Some(c) = prim {
            println!("REPLAY-EXPECT: value {}", c);
        } else {
            println!("REPLAY-EXPECT: error");
        }
    }
    if ka != kb {
        assert!(as_bool(&eq) == Some(false), "C13.equals.kinds values of different types are never equal");
        assert!(matches!(pe, Ok(false)), "C13.primitiveEquals.kinds");
    } else {
        let content_eq = match (&a, &b) {
            (Val::Null, Val::Null) => Some(true),
            (Val::Bool(x), Val::Bool(y)) => Some(x == y),
            (Val::Num(x), Val::Num(y)) => Some(x.get() == y.get()),
            (Val::Str(x), Val::Str(y)) => Some(x.0.as_bytes() == y.0.as_bytes()),
            _ => None,
        };
        if let Some(c) = content_eq {
            assert!(as_bool(&eq) == Some(c), "C13.equals.content values of the same primitive type compare by content");
        }
        if ka == Kind::Func {
            assert!(eq.is_err(), "C13.equals.functions comparing two functions is an error");
        }
        match ka {
            Kind::Obj | Kind::Func => assert!(pe.is_err(), "C13.primitiveEquals.rejects primitiveEquals rejects objects and functions"),
            _ => assert!(matches!(pe, Ok(x) if Some(x) == content_eq), "C13.primitiveEquals.content"),
        }
    }
    if let (Some(e), Some(n)) = (as_bool(&eq), as_bool(&ne)) {
        assert!(e != n, "C13.neq != is the negation of ==");
    }
    assert!(eq.is_ok() == ne.is_ok(), "C13.neq.errors == and != fail together");
}
//@harness tier=quick timeout=900 desc="== / != / std.equals / std.primitiveEquals over all kinds: different kinds are unequal, same primitive kinds compare by content, != is the negation, comparing functions is an error, primitiveEquals rejects objects/functions" bounds="48 concrete pairs of operand kinds (all but array/array) with symbolic contents"
#[kani::proof]
#[kani::unwind(6)]
pub fn equality_table() {
    use Kind::*;
    macro_rules! row { ($a:ident) => { equality_cell($a, Null); equality_cell($a, Bool); equality_cell($a, Num); equality_cell($a, Str); equality_cell($a, Obj); equality_cell($a, Func); }; }
    row!(Null);
    row!(Bool);
    row!(Num);
    row!(Str);
    row!(Obj);
    row!(Func);
    row!(Arr);
    equality_cell(Null, Arr);
    equality_cell(Bool, Arr);
    equality_cell(Num, Arr);
    equality_cell(Str, Arr);
    equality_cell(Obj, Arr);
    equality_cell(Func, Arr);
    kani::cover!(true, "all cells executed");
    let s1 = any_val_of(Str, 1);
    let s2 = any_val_of(Str, 2);
    kani::cover!(as_bool(&bin(&s1, BinaryOpType::Eq, &s2)) == Some(true), "equal strings reached");
}

//@harness tier=quick timeout=600 desc="unary operators over all kinds: - + ~ need a number, ! needs a boolean, everything else is an error" bounds="4 operators x 7 operand kinds"
#[kani::proof]
#[kani::unwind(8)]
pub fn unary_type_table() {
    let k = any_kind();
    let v = any_val_of(k, 1);
    let which: u8 = kani::any();
    kani::assume(which < 4);
    let op = [UnaryOpType::Plus, UnaryOpType::Minus, UnaryOpType::BitNot, UnaryOpType::Not][which as usize];
    let r = evaluate_unary_op(op, &v);
    let want = if which == 3 { k == Kind::Bool } else { k == Kind::Num };
    #[cfg(verif_playback)]
    {
        println!("REPLAY-INPUT: op={:?} v={:?}", op, v);
        println!("REPLAY-JSONNET: std.type({}{})", ["+", "-", "~", "!"][which as usize], jsonnet_of(&v));
        println!("REPLAY-EXPECT: {}", if want { "nocrash" } else { "error" });
    }
    assert!(r.is_ok() == want, "C01.unary_table a unary operator applies exactly to its operand type");
    if which == 3 && want {
        assert!(matches!((&r, &v), (Ok(Val::Bool(x)), Val::Bool(y)) if *x == !*y), "C01.not logical negation");
    }
    kani::cover!(want && which == 3, "! on a boolean reached");
    kani::cover!(!want && k == Kind::Str, "unary on a string reached");
}

// ================================================================================================
// && and || : short-circuit evaluation (evaluate_binary_op_special)
// ================================================================================================
fn short_circuit_case(op: BinaryOpType, ka: Kind, kb: Kind) {
    use std::sync::atomic::Ordering::Relaxed;
    let a = any_val_of(ka, 1);
    let b = any_val_of(kb, 2);
    let l0 = EVALS_LEFT.load(Relaxed);
    let r0 = EVALS_RIGHT.load(Relaxed);
    let r = evaluate_binary_op_special(Context, &Expr { v: a.clone(), right: false }, op, &Expr { v: b.clone(), right: true });
    let right_evals = EVALS_RIGHT.load(Relaxed) - r0;
    assert!(EVALS_LEFT.load(Relaxed) - l0 == 1, "C01.logic.left the left operand is evaluated exactly once");
    #[cfg(verif_playback)]
    {
        println!("REPLAY-INPUT: a={:?} op={:?} b={:?}", a, op, b);
        println!("REPLAY-JSONNET: std.type({} {} {})", jsonnet_of(&a), sym(op), jsonnet_of(&b));
        let ok = match (&a, &b) { (Val::Bool(x), _) if (*x && matches!(op, BinaryOpType::Or)) || (!*x && matches!(op, BinaryOpType::And)) => true, (Val::Bool(_), Val::Bool(_)) => true, _ => false };
        println!("REPLAY-EXPECT: {}", if ok { "nocrash" } else { "error" });
    }
    match (&a, op) {
        (Val::Bool(true), BinaryOpType::Or) => {
            assert!(as_bool(&r) == Some(true) && right_evals == 0, "C03.logic.short_circuit `true || e` is true and e is not evaluated");
        }
        (Val::Bool(false), BinaryOpType::And) => {
            assert!(as_bool(&r) == Some(false) && right_evals == 0, "C03.logic.short_circuit `false && e` is false and e is not evaluated");
        }
        (Val::Bool(x), _) => {
            assert!(right_evals == 1, "C01.logic.right otherwise the right operand is evaluated once");
            match &b {
                Val::Bool(y) => assert!(as_bool(&r) == Some(if matches!(op, BinaryOpType::And) { *x && *y } else { *x || *y }), "C01.logic.value && / || on booleans"),
                _ => assert!(r.is_err(), "C01.logic.type a non-boolean right operand of && / || is a type error"),
            }
        }
        _ => assert!(r.is_err(), "C01.logic.type a non-boolean left operand of && / || is a type error"),
    }
}
macro_rules! short_circuit {
    ($name:ident, $op:ident) => {
        #[kani::proof]
        #[kani::unwind(6)]
        pub fn $name() {
            use Kind::*;
            let op = BinaryOpType::$op;
            macro_rules! row { ($a:ident) => { short_circuit_case(op, $a, Null); short_circuit_case(op, $a, Bool); short_circuit_case(op, $a, Num); short_circuit_case(op, $a, Str); short_circuit_case(op, $a, Obj); short_circuit_case(op, $a, Func); }; }
            row!(Bool);
            row!(Null);
            row!(Num);
            row!(Str);
            kani::cover!(true, "all cells executed");
            let t = any_val_of(Bool, 1);
            kani::cover!(matches!(t, Val::Bool(true)), "true operand reached");
        }
    };
}
//@harness name=logic_and tier=quick timeout=900 unwind=6 desc="`&&` through evaluate_binary_op_special: `false && e` does not evaluate e; `true && e` needs a boolean e; a non-boolean left operand is an error" bounds="left kind in {bool,null,number,string} x right kind in 6 kinds, symbolic contents"
short_circuit!(logic_and, And);
//@harness name=logic_or tier=quick timeout=900 unwind=6 desc="`||` likewise (`true || e` does not evaluate e)" bounds="left kind in {bool,null,number,string} x right kind in 6 kinds, symbolic contents"
short_circuit!(logic_or, Or);

// ------------------------------------------------------------------------------------------------
// string repetition (jrsonnet extension `"s" * n`): total, never the allocator's capacity panic
// ------------------------------------------------------------------------------------------------
//@harness name=str_repeat tier=quick timeout=300 unwind=6 desc="evaluate_mul_op on (string, number) and (number, string): a value or an error, never str::repeat's capacity-overflow panic" bounds="strings of 0..=4 bytes, count: every finite double"
#[kani::proof]
#[kani::unwind(6)]
pub fn str_repeat() {
    let n: usize = kani::any();
    kani::assume(n <= 4);
    let s = Val::Str(StrValue(IStr::from_bytes(&b"abcd"[..n])));
    let (fc, c) = any_num();
    let left: bool = kani::any();
    #[cfg(verif_playback)]
    {
        println!("REPLAY-INPUT: len={} count={:e} ({:#x}) string_on_the_left={}", n, fc, fc.to_bits(), left);
        if left {
            println!("REPLAY-JSONNET: std.length(\"{}\" * {})", &"abcd"[..n], lit(fc));
        } else {
            println!("REPLAY-JSONNET: std.length({} * \"{}\")", lit(fc), &"abcd"[..n]);
        }
        // a count that fits but asks for more memory than there is ends in an allocation failure, which is
        // outside the property: replay only what the solver reports (an overflowing product)
        println!("REPLAY-EXPECT: nocrash");
    }
    let r = if left { bin(&s, BinaryOpType::Mul, &c) } else { bin(&c, BinaryOpType::Mul, &s) };
    assert!(matches!(r, Ok(Val::Str(_)) | Err(_)), "C04.repeat.kind string repetition yields a string or an error");
    kani::cover!(r.is_ok() && fc > 4.0e18 && n == 0, "huge count on the empty string reached");
    kani::cover!(fc > 1.0e19 && n == 2, "count beyond usize reached");
}

//@harness name=std_repeat tier=quick timeout=300 unwind=6 desc="builtin_repeat on a string: a value or an error, never str::repeat's capacity-overflow panic" bounds="strings of 0..=4 bytes, count: every usize"
#[kani::proof]
#[kani::unwind(6)]
pub fn std_repeat() {
    use crate::stdrepeat::*;
    let n: usize = kani::any();
    kani::assume(n <= 4);
    let count: usize = kani::any();
    #[cfg(verif_playback)]
    {
        println!("REPLAY-INPUT: len={} count={}", n, count);
        // std.repeat converts its count from a double <= 2^53 - 1: reach the same product with a longer string
        println!("REPLAY-JSONNET: std.length(std.repeat(std.repeat(\"abcd\", 4096), 9007199254740991))");
        println!("REPLAY-EXPECT: nocrash");
    }
    let r = builtin_repeat(Either2::A(IStr::from_bytes(&b"abcd"[..n])), count);
    assert!(matches!(r, Ok(Val::Str(_)) | Err(_)), "C04.repeat.kind string repetition yields a string or an error");
    kani::cover!(r.is_ok() && count > 1 << 62 && n == 0, "huge count on the empty string reached");
    kani::cover!(r.is_err() && n == 1, "overflow reported as an error reached");
}

// ------------------------------------------------------------------------------------------------
// std math functions that are pure selection: the definitions of the Jsonnet standard library
// ------------------------------------------------------------------------------------------------
fn any_finite() -> f64 {
    let a: f64 = kani::any();
    kani::assume(a.is_finite());
    a
}
//@harness name=num_std_clamp tier=quick timeout=300 unwind=4 desc="builtin_clamp: no panic, and the value of `if x < minVal then minVal else if x > maxVal then maxVal else x`" bounds="all triples of finite doubles (192 symbolic bits)"
#[kani::proof]
#[kani::unwind(4)]
pub fn num_std_clamp() {
    let (x, lo, hi) = (any_finite(), any_finite(), any_finite());
    let want = if x < lo { lo } else if x > hi { hi } else { x };
    #[cfg(verif_playback)]
    {
        println!("REPLAY-INPUT: x={:e} min={:e} max={:e}", x, lo, hi);
        println!("REPLAY-JSONNET: std.clamp({}, {}, {}) == {}", lit(x), lit(lo), lit(hi), lit(want));
        println!("REPLAY-EXPECT: value true");
    }
    let got = crate::stdmath::builtin_clamp(x, lo, hi);
    assert!(got == want, "C09.std.clamp std.clamp differs from its definition");
    kani::cover!(lo > hi, "inverted bounds reached");
    kani::cover!(x > hi && lo < hi, "clamped from above reached");
}
//@harness name=num_std_select tier=quick timeout=300 unwind=4 desc="builtin_max/min/abs/sign: the values of their Jsonnet definitions (up to the sign of zero), no panic" bounds="all pairs of finite doubles"
#[kani::proof]
#[kani::unwind(4)]
pub fn num_std_select() {
    let (a, b) = (any_finite(), any_finite());
    #[cfg(verif_playback)]
    {
        println!("REPLAY-INPUT: a={:e} b={:e}", a, b);
        println!("REPLAY-JSONNET: [std.max({a}, {b}) == (if {a} > {b} then {a} else {b}), std.min({a}, {b}) == (if {a} < {b} then {a} else {b}), std.abs({a}) == (if {a} > 0 then {a} else -{a}), std.sign({a}) == (if {a} > 0 then 1 else if {a} < 0 then -1 else 0)]", a = lit(a), b = lit(b));
        println!("REPLAY-EXPECT: value [true, true, true, true]");
    }
    use crate::stdmath::*;
    assert!(builtin_max(a, b) == if a > b { a } else { b }, "C09.std.max std.max differs from its definition");
    assert!(builtin_min(a, b) == if a < b { a } else { b }, "C09.std.min std.min differs from its definition");
    assert!(builtin_abs(a) == if a > 0.0 { a } else { -a }, "C09.std.abs std.abs differs from its definition");
    assert!(builtin_sign(a) == if a > 0.0 { 1.0 } else if a < 0.0 { -1.0 } else { 0.0 }, "C09.std.sign std.sign differs from its definition");
    kani::cover!(a < 0.0 && b > a, "negative operand reached");
    kani::cover!(a == 0.0 && a.is_sign_negative(), "negative zero reached");
}

//@harness name=num_std_integrality tier=quick timeout=300 unwind=4 desc="builtin_is_integer/is_decimal: round(x) == x / != x" bounds="every finite double (isEven/isOdd use the float remainder, which CBMC models imprecisely: a counterexample on them did not reproduce natively, so they are outside)"
#[kani::proof]
#[kani::unwind(4)]
pub fn num_std_integrality() {
    let x = any_finite();
    #[cfg(verif_playback)]
    {
        println!("REPLAY-INPUT: x={:e}", x);
        println!("REPLAY-JSONNET: local x = {x}; [std.isInteger(x) == (std.floor(x) == x), std.isDecimal(x) == (std.floor(x) != x)]", x = lit(x));
        println!("REPLAY-EXPECT: value [true, true]");
    }
    use crate::stdmath::*;
    let integral = x == x.trunc();
    assert!(builtin_is_integer(x) == integral, "C09.std.is_integer std.isInteger differs from its definition");
    assert!(builtin_is_decimal(x) == !integral, "C09.std.is_decimal std.isDecimal differs from its definition");
    kani::cover!(integral && x > 4.0e15, "large integral double reached");
    kani::cover!(!integral && x < 0.0, "negative fraction reached");
}
