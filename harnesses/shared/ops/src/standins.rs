//! Stand-ins for the heap-backed value kinds (DESIGN.md §1 E2). Strings are at most 4 bytes held
//! inline; arrays hold at most two already-evaluated elements; objects and functions are opaque tokens.
use crate::error::Result;
use crate::val::Val;
use std::cell::Cell;
use std::cmp::Ordering;
use std::fmt;

static FORMATTED: std::sync::atomic::AtomicBool = std::sync::atomic::AtomicBool::new(false);
pub fn note_format() {
    FORMATTED.store(true, std::sync::atomic::Ordering::Relaxed);
}
pub fn formatted() -> bool {
    FORMATTED.load(std::sync::atomic::Ordering::Relaxed)
}

/// Owned-string stand-in (`String` in the extracted code): formatted text is opaque (no content), only
/// the byte length is carried, and `repeat` states std's documented contract — `str::repeat` "will
/// panic if the capacity would overflow" (`len * n` beyond usize, or beyond isize::MAX in the allocation).
#[derive(Clone, Copy, Debug, Default)]
pub struct String {
    pub len: usize,
}
impl String {
    pub fn new() -> Self {
        String { len: 0 }
    }
    pub fn as_bytes(&self) -> &[u8] {
        &[]
    }
    pub fn len(&self) -> usize {
        self.len
    }
    pub fn repeat(&self, n: usize) -> String {
        let cap = self.len.checked_mul(n);
        assert!(cap.is_some() && cap.unwrap() <= isize::MAX as usize, "capacity overflow");
        String { len: cap.unwrap() }
    }
}

pub const SMAX: usize = 4;
/// Interned string stand-in: content-level behaviour only (byte-wise `Ord`, as `str`).
#[derive(Clone, Copy, Debug, Default, PartialEq, Eq)]
pub struct IStr {
    pub b: [u8; SMAX],
    pub n: u8,
}
impl IStr {
    pub fn from_bytes(s: &[u8]) -> Self {
        let mut b = [0u8; SMAX];
        let mut n = 0;
        while n < s.len() && n < SMAX {
            b[n] = s[n];
            n += 1;
        }
        IStr { b, n: n as u8 }
    }
    pub fn is_empty(&self) -> bool {
        self.n == 0
    }
    pub fn len(&self) -> usize {
        self.n as usize
    }
    pub fn as_bytes(&self) -> &[u8] {
        &self.b[..self.n as usize]
    }
    /// `str::repeat` through `Deref<Target = str>`: see `String::repeat`
    pub fn repeat(&self, n: usize) -> String {
        String { len: self.len() }.repeat(n)
    }
}
impl PartialOrd for IStr {
    fn partial_cmp(&self, o: &Self) -> Option<Ordering> {
        Some(self.cmp(o))
    }
}
impl IStr {
    fn at(&self, i: usize) -> Option<u8> {
        if i < self.n as usize {
            Some(self.b[i])
        } else {
            None
        }
    }
}
impl Ord for IStr {
    /// byte-wise lexicographic order (= `str` order); straight-line over the SMAX = 4 positions
    fn cmp(&self, o: &Self) -> Ordering {
        let c0 = self.at(0).cmp(&o.at(0));
        if c0 != Ordering::Equal || self.at(0).is_none() {
            return c0;
        }
        let c1 = self.at(1).cmp(&o.at(1));
        if c1 != Ordering::Equal || self.at(1).is_none() {
            return c1;
        }
        let c2 = self.at(2).cmp(&o.at(2));
        if c2 != Ordering::Equal || self.at(2).is_none() {
            return c2;
        }
        self.at(3).cmp(&o.at(3))
    }
}
impl From<String> for IStr {
    fn from(s: String) -> Self {
        IStr::from_bytes(s.as_bytes())
    }
}
impl From<&str> for IStr {
    fn from(s: &str) -> Self {
        IStr::from_bytes(s.as_bytes())
    }
}
impl fmt::Display for IStr {
    fn fmt(&self, _f: &mut fmt::Formatter<'_>) -> fmt::Result {
        Ok(())
    }
}

/// `StrValue` stand-in: flat only (the rope representation is a C08-style view, not an operator matter).
#[derive(Clone, Copy, Debug, PartialEq, Eq, PartialOrd, Ord)]
pub struct StrValue(pub IStr);
impl StrValue {
    /// concatenation, truncated to SMAX bytes; harnesses keep operands short enough not to truncate
    pub fn concat(a: Self, b: Self) -> Self {
        let mut out = a.0;
        let mut i = 0;
        while i < b.0.n as usize && (out.n as usize) < SMAX {
            out.b[out.n as usize] = b.0.b[i];
            out.n += 1;
            i += 1;
        }
        StrValue(out)
    }
    pub fn into_flat(self) -> IStr {
        self.0
    }
    pub fn is_empty(&self) -> bool {
        self.0.is_empty()
    }
    pub fn len(&self) -> usize {
        self.0.len()
    }
    pub fn to_string(&self) -> String {
        note_format();
        String { len: self.0.len() }
    }
}
impl<T> From<T> for StrValue
where
    IStr: From<T>,
{
    fn from(v: T) -> Self {
        StrValue(IStr::from(v))
    }
}
impl fmt::Display for StrValue {
    fn fmt(&self, _f: &mut fmt::Formatter<'_>) -> fmt::Result {
        Ok(())
    }
}

/// Array stand-in: at most two already evaluated *primitive* elements held inline. The element type
/// is deliberately not `Val`: a recursive stand-in makes CBMC unwind drop glue recursively (DESIGN §0).
#[derive(Clone, Copy, Debug)]
pub enum Prim {
    Null,
    Bool(bool),
    Num(f64),
}
impl Prim {
    pub fn to_val(self) -> Val {
        match self {
            Prim::Null => Val::Null,
            Prim::Bool(b) => Val::Bool(b),
            Prim::Num(n) => Val::Num(crate::val::NumValue::new(n).expect("finite")),
        }
    }
}
#[derive(Clone, Copy, Debug)]
pub struct ArrValue {
    pub e: [Prim; 2],
    pub n: u8,
    /// identity token for `ptr_eq`
    pub id: u8,
}
pub struct ArrIter {
    a: ArrValue,
    i: u8,
}
impl Iterator for ArrIter {
    type Item = Result<Val>;
    fn next(&mut self) -> Option<Self::Item> {
        if self.i < self.a.n {
            let v = self.a.e[self.i as usize].to_val();
            self.i += 1;
            Some(Ok(v))
        } else {
            None
        }
    }
}
impl ArrValue {
    pub fn len(&self) -> usize {
        self.n as usize
    }
    /// array repetition is C08's subject (RepeatedArray::new); here only its signature
    pub fn repeated(a: Self, count: usize) -> Option<Self> {
        a.len().checked_mul(count).map(|_| a)
    }
    pub fn iter(&self) -> ArrIter {
        ArrIter { a: *self, i: 0 }
    }
    pub fn ptr_eq(a: &Self, b: &Self) -> bool {
        a.id == b.id
    }
    /// concatenation (C08 owns the real representation); truncated at two elements
    pub fn extended(a: Self, b: Self) -> Self {
        let mut out = a;
        out.id = 255;
        let mut i = 0;
        while i < b.n && out.n < 2 {
            out.e[out.n as usize] = b.e[i as usize];
            out.n += 1;
            i += 1;
        }
        out
    }
}
/// Object stand-in: an opaque token with no fields (objects are C02).
#[derive(Clone, Debug)]
pub struct ObjValue(pub u8);
impl ObjValue {
    pub fn ptr_eq(a: &Self, b: &Self) -> bool {
        a.0 == b.0
    }
    pub fn fields(&self) -> Vec<IStr> {
        Vec::new()
    }
    pub fn get(&self, _f: IStr) -> Result<Option<Val>> {
        Ok(None)
    }
    pub fn extend_from(&self, _sup: Self) -> Self {
        self.clone()
    }
    pub fn has_field_ex(&self, _f: IStr, _hidden: bool) -> bool {
        false
    }
}
#[derive(Clone, Debug)]
pub struct FuncVal(pub u8);

pub fn std_format(_s: &IStr, _v: Val) -> Result<String> {
    note_format();
    Ok(String::new())
}
pub trait IntoUntyped {
    fn into_untyped(v: Self) -> Result<Val>;
}
impl IntoUntyped for String {
    fn into_untyped(v: Self) -> Result<Val> {
        Ok(Val::Str(StrValue(IStr::from(v))))
    }
}

// ---- expressions for the short-circuit operators ---------------------------------------------------
use std::sync::atomic::{AtomicU32, Ordering as AO};
pub static EVALS_LEFT: AtomicU32 = AtomicU32::new(0);
pub static EVALS_RIGHT: AtomicU32 = AtomicU32::new(0);
#[derive(Clone, Debug)]
pub struct Context;
/// an expression that evaluates to a fixed value; `right` tells which counter it bumps
#[derive(Clone, Debug)]
pub struct Expr {
    pub v: Val,
    pub right: bool,
}
pub fn evaluate(_ctx: Context, e: &Expr) -> Result<Val> {
    if e.right {
        EVALS_RIGHT.fetch_add(1, AO::Relaxed);
    } else {
        EVALS_LEFT.fetch_add(1, AO::Relaxed);
    }
    Ok(e.v.clone())
}
