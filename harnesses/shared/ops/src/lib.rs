//! Operators on values: `evaluate/operator.rs` and the equality functions of `val.rs`, extracted
//! verbatim and compiled against small stand-ins for the heap value kinds (C01, C09, C13).
#![allow(unused, dead_code, clippy::all, non_local_definitions, ambiguous_glob_reexports)]

/// `format!` inside the extracted operator code only builds message/concatenation strings whose
/// *content* is outside every assertion made here (number printing is core's Grisu: out of reach);
/// it is replaced by a stub that records that formatting happened.
macro_rules! format {
    ($($t:tt)*) => {{
        $crate::standins::note_format();
        String::new()
    }};
}



pub mod types {
    use std::fmt::Display;
    //@extract crates/jrsonnet-types/src/lib.rs :: enum ValType
    //@extract crates/jrsonnet-ir/src/expr.rs :: enum UnaryOpType
    //@extract crates/jrsonnet-ir/src/expr.rs :: enum BinaryOpType
}

pub mod error {
    use crate::types::*;
    /// The `ErrorKind` variants the operator code constructs; payloads as in the repo.
    #[derive(Debug, Clone, PartialEq)]
    pub enum ErrorKind {
        UnaryOperatorDoesNotOperateOnType(UnaryOpType, ValType),
        BinaryOperatorDoesNotOperateOnValues(BinaryOpType, ValType, ValType),
        DivisionByZero,
        RuntimeError(&'static str),
        ConvertNum,
        Other,
    }
    pub use ErrorKind::*;
    #[derive(Debug, Clone, PartialEq)]
    pub struct Error(pub ErrorKind);
    impl From<ErrorKind> for Error {
        fn from(k: ErrorKind) -> Self {
            Error(k)
        }
    }
    impl From<crate::prelude::num::ConvertNumValueError> for Error {
        fn from(_: crate::prelude::num::ConvertNumValueError) -> Self {
            Error(ErrorKind::ConvertNum)
        }
    }
    pub type Result<T, E = Error> = core::result::Result<T, E>;
}
/// `bail!` of the evaluator without message formatting.
macro_rules! bail {
    ($lit:literal $(, $($rest:tt)*)?) => {
        return Err($crate::error::Error($crate::error::ErrorKind::RuntimeError($lit)))
    };
    ($e:expr) => {
        return Err($crate::error::Error::from($e))
    };
}
macro_rules! runtime_error {
    ($lit:literal $(, $($rest:tt)*)?) => {
        $crate::error::Error($crate::error::ErrorKind::RuntimeError($lit))
    };
}

mod prelude;
pub mod standins;

pub mod val {
    use crate::error::{Error, ErrorKind::*, Result};
    pub use crate::prelude::num::{NumValue, MAX_SAFE_INTEGER, MIN_SAFE_INTEGER};
    pub use crate::standins::*;
    use crate::types::*;

    /// Same variants as the repo's `Val` (without the experimental bigint).
    #[derive(Debug, Clone)]
    pub enum Val {
        Bool(bool),
        Null,
        Str(StrValue),
        Num(NumValue),
        Arr(ArrValue),
        Obj(ObjValue),
        Func(FuncVal),
    }
    impl Val {
        //@extract crates/jrsonnet-evaluator/src/val.rs :: fn Val::value_type
        //@extract crates/jrsonnet-evaluator/src/val.rs :: fn Val::string
        //@extract crates/jrsonnet-evaluator/src/val.rs :: fn Val::try_num
        /// stand-in for manifestation through `ToStringFormat` (C05): an opaque token
        pub fn to_string(&self) -> Result<IStr> {
            crate::standins::note_format();
            Ok(IStr::default())
        }
    }
    //@extract crates/jrsonnet-evaluator/src/val.rs :: fn is_function_like
    //@extract crates/jrsonnet-evaluator/src/val.rs :: fn primitive_equals
    //@extract crates/jrsonnet-evaluator/src/val.rs :: fn equals
}

pub mod operator {
    use std::cmp::Ordering;
    use crate::error::{ErrorKind::*, Result};
    use crate::standins::{std_format, IntoUntyped as _, String};
    use crate::types::{BinaryOpType, UnaryOpType};
    use crate::val::{equals, ArrValue, StrValue, Val};
    //@extract crates/jrsonnet-evaluator/src/evaluate/operator.rs :: fn evaluate_unary_op
    //@extract crates/jrsonnet-evaluator/src/evaluate/operator.rs :: fn evaluate_add_op
    //@extract crates/jrsonnet-evaluator/src/evaluate/operator.rs :: fn evaluate_sub_op
    //@extract crates/jrsonnet-evaluator/src/evaluate/operator.rs :: fn evaluate_mul_op
    //@extract crates/jrsonnet-evaluator/src/evaluate/operator.rs :: fn is_attempt_to_divide_by_zero
    //@extract crates/jrsonnet-evaluator/src/evaluate/operator.rs :: fn evaluate_div_op
    //@extract crates/jrsonnet-evaluator/src/evaluate/operator.rs :: fn evaluate_mod_op
    //@extract crates/jrsonnet-evaluator/src/evaluate/operator.rs :: fn evaluate_compare_op
    //@extract crates/jrsonnet-evaluator/src/evaluate/operator.rs :: fn evaluate_binary_op_normal

    /// `&&` / `||` short-circuiting (`evaluate_binary_op_special`): operands are expressions; the
    /// stand-in expression is an already computed value plus an evaluation counter
    pub use crate::standins::{evaluate, Context, Expr};
    //@extract crates/jrsonnet-evaluator/src/evaluate/operator.rs :: fn evaluate_binary_op_special
}

/// `std.repeat` (jrsonnet-stdlib/src/arrays.rs), the string side
pub mod stdrepeat {
    use crate::error::Result;
    use crate::standins::{ArrValue, IStr, String};
    use crate::val::Val;
    pub enum Either2<A, B> {
        A(A),
        B(B),
    }
    macro_rules! Either {
        [$a:ty, $b:ty] => { Either2<$a, $b> };
    }
    //@extract crates/jrsonnet-stdlib/src/arrays.rs :: fn builtin_repeat
}

/// selection and rounding functions of jrsonnet-stdlib/src/math.rs (the `#[builtin]` attribute is dropped:
/// the functions are called with already converted, finite doubles)
pub mod stdmath {
    //@extract crates/jrsonnet-stdlib/src/math.rs :: fn builtin_abs
    //@extract crates/jrsonnet-stdlib/src/math.rs :: fn builtin_sign
    //@extract crates/jrsonnet-stdlib/src/math.rs :: fn builtin_max
    //@extract crates/jrsonnet-stdlib/src/math.rs :: fn builtin_min
    //@extract crates/jrsonnet-stdlib/src/math.rs :: fn builtin_clamp
    //@extract crates/jrsonnet-stdlib/src/math.rs :: fn builtin_round
    //@extract crates/jrsonnet-stdlib/src/math.rs :: fn builtin_is_even
    //@extract crates/jrsonnet-stdlib/src/math.rs :: fn builtin_is_odd
    //@extract crates/jrsonnet-stdlib/src/math.rs :: fn builtin_is_integer
    //@extract crates/jrsonnet-stdlib/src/math.rs :: fn builtin_is_decimal
}

#[cfg(kani)]
mod harnesses;
