//! C11 — hand-written logic of `jrsonnet-stdlib/src/strings.rs` (and the string arm of
//! `IndexableVal::slice` in `val.rs`), extracted verbatim, over symbolic strings.
#![allow(unused, dead_code, clippy::all, non_local_definitions)]

//@include ../../../../prelude/bail.in
mod prelude;

pub mod error {
    #[derive(Debug, Clone, PartialEq)]
    pub enum ErrorKind {
        InvalidUnicodeCodepointGot(u32),
        RuntimeError(&'static str),
        Other,
    }
    pub use ErrorKind::*;
    #[derive(Debug, Clone, PartialEq)]
    pub struct Error(pub ErrorKind);
    impl From<ErrorKind> for Error {
        fn from(k: ErrorKind) -> Self {
            Error(k)
        }
    }
    impl From<crate::prelude::num::ConvertNumValueError> for Error {
        fn from(_: crate::prelude::num::ConvertNumValueError) -> Self {
            Error(ErrorKind::Other)
        }
    }
    pub type Result<T, E = Error> = core::result::Result<T, E>;
}

pub mod standins {
    use crate::error::Result;
    pub use crate::prelude::num::NumValue;
    use std::num::NonZeroU32;
    use std::ops::Deref;

    /// `IStr` stand-in: a borrowed `&str`; only content-level behaviour is asserted.
    #[derive(Clone, Copy, Debug, PartialEq, Eq)]
    pub struct IStr(pub &'static str);
    impl Deref for IStr {
        type Target = str;
        fn deref(&self) -> &str {
            self.0
        }
    }
    impl IStr {
        pub fn as_str(&self) -> &str {
            self.0
        }
    }
    impl From<&'static str> for IStr {
        fn from(s: &'static str) -> Self {
            IStr(s)
        }
    }
    /// Results that are fresh strings are kept as `String`.
    #[derive(Clone, Debug, PartialEq, Eq)]
    pub enum OutStr {
        Borrowed(&'static str),
        Owned(String),
    }
    impl OutStr {
        pub fn as_str(&self) -> &str {
            match self {
                OutStr::Borrowed(s) => s,
                OutStr::Owned(s) => s.as_str(),
            }
        }
    }
    #[derive(Clone, Debug, PartialEq)]
    pub enum Val {
        Null,
        Num(NumValue),
    }
    /// Result array of `std.findSubstr`: plain vector of numbers.
    #[derive(Clone, Debug, PartialEq)]
    pub struct ArrValue(pub Vec<Val>);
    impl ArrValue {
        pub fn empty() -> Self {
            ArrValue(Vec::new())
        }
    }
    impl From<Vec<Val>> for ArrValue {
        fn from(v: Vec<Val>) -> Self {
            ArrValue(v)
        }
    }
}

pub mod strings {
    use crate::error::{ErrorKind::*, Result};
    use crate::standins::*;
    //@extract crates/jrsonnet-stdlib/src/strings.rs :: fn builtin_codepoint
    //@extract crates/jrsonnet-stdlib/src/strings.rs :: fn builtin_char
    //@extract crates/jrsonnet-stdlib/src/strings.rs :: fn builtin_parse_int
    //@extract crates/jrsonnet-stdlib/src/strings.rs :: fn builtin_parse_octal
    //@extract crates/jrsonnet-stdlib/src/strings.rs :: fn builtin_parse_hex
    //@extract crates/jrsonnet-stdlib/src/strings.rs :: fn parse_nat
    //@extract crates/jrsonnet-stdlib/src/strings.rs :: fn builtin_trim
}

/// Functions that accumulate their result in a `Vec` / `String`: the container names are shadowed by
/// fixed-capacity stand-ins (prelude/fixed.rs), the function text is unchanged.
pub mod strings_acc {
    use crate::error::{ErrorKind::*, Result};
    use crate::prelude::fixed::{FixedString, FixedVec};
    use crate::standins::{IStr, Val};
    pub type Vec<T> = FixedVec<T, 8>;
    pub type String = FixedString<16>;
    #[derive(Clone, Debug)]
    pub struct ArrValue(pub Vec<Val>);
    impl ArrValue {
        pub fn empty() -> Self {
            ArrValue(Vec::new())
        }
    }
    impl From<Vec<Val>> for ArrValue {
        fn from(v: Vec<Val>) -> Self {
            ArrValue(v)
        }
    }
    //@extract crates/jrsonnet-stdlib/src/strings.rs :: fn builtin_substr
    //@extract crates/jrsonnet-stdlib/src/strings.rs :: fn builtin_find_substr
}

/// The string arm of `IndexableVal::slice` (`str[a:b:c]`, `std.slice` on strings).
pub mod slice {
    use crate::error::Result;
    use std::num::NonZeroU32;
    use std::ops::Deref;
    pub type String = crate::prelude::fixed::FixedString<8>;
    /// owned-string stand-in for the interned result (fixed capacity, see prelude/fixed.rs)
    #[derive(Clone, Debug, PartialEq, Eq)]
    pub struct IStr(pub String);
    impl Deref for IStr {
        type Target = str;
        fn deref(&self) -> &str {
            self.0.as_str()
        }
    }
    impl From<&str> for IStr {
        fn from(s: &str) -> Self {
            IStr(String::from(s))
        }
    }
    impl From<String> for IStr {
        fn from(s: String) -> Self {
            IStr(s)
        }
    }
    /// `BoundedUsize<MIN, MAX>`: the typed-argument wrapper; the bound is the harness's assumption.
    #[derive(Clone, Copy, Debug)]
    pub struct BoundedUsize<const MIN: usize, const MAX: usize>(pub usize);
    impl<const MIN: usize, const MAX: usize> Deref for BoundedUsize<MIN, MAX> {
        type Target = usize;
        fn deref(&self) -> &usize {
            &self.0
        }
    }
    impl<const MIN: usize, const MAX: usize> BoundedUsize<MIN, MAX> {
        pub const fn value(self) -> usize {
            self.0
        }
    }
    /// arrays are C08; the array arm only has to compile
    #[derive(Clone, Debug)]
    pub struct ArrValue;
    impl ArrValue {
        pub fn slice(self, _i: Option<i32>, _e: Option<i32>, _s: Option<NonZeroU32>) -> Self {
            self
        }
    }
    //@extract crates/jrsonnet-evaluator/src/val.rs :: enum IndexableVal
    impl IndexableVal {
        //@extract crates/jrsonnet-evaluator/src/val.rs :: fn IndexableVal::slice
    }
}

#[cfg(kani)]
mod harnesses;
