//! C11 harnesses. Strings are symbolic byte arrays constrained to well-formed UTF-8
//! (`prelude::symstr::is_utf8`), so every ASCII string and every 2-/3-byte scalar within the byte
//! bound is covered.
use crate::error::{Error, ErrorKind, Result};
use crate::prelude::symstr::SymStr;
use crate::standins::{IStr, Val};
use crate::strings::*;
use crate::strings_acc::{builtin_find_substr, builtin_substr};

const N: usize = 3;

fn hexval(c: u8) -> Option<u32> {
    match c {
        b'0'..=b'9' => Some((c - b'0') as u32),
        b'a'..=b'f' => Some((c - b'a') as u32 + 10),
        b'A'..=b'F' => Some((c - b'A') as u32 + 10),
        _ => None,
    }
}
/// positional value of a digit string in `base`, `None` unless every byte is a digit of that base
/// and there is at least one
fn ref_nat(b: &[u8], n: usize, base: u32) -> Option<f64> {
    if n == 0 {
        return None;
    }
    let mut acc: u64 = 0;
    let mut i = 0;
    while i < b.len() {
        if i < n {
            match hexval(b[i]) {
                Some(d) if d < base => acc = acc * base as u64 + d as u64,
                _ => return None,
            }
        }
        i += 1;
    }
    Some(acc as f64)
}

fn same(r: &Result<f64>, want: Option<f64>) -> bool {
    match (r, want) {
        (Ok(x), Some(w)) => *x == w,
        (Err(_), None) => true,
        _ => false,
    }
}
#[cfg(verif_playback)]
fn replay_parse(f: &str, s: &SymStr<N>, want: Option<f64>) {
    println!("REPLAY-INPUT: {}({:?}) bytes={:?}", f, s.as_str(), s.bytes());
    println!("REPLAY-JSONNET: std.{}({})", f, s.jsonnet());
    match want {
        Some(w) => println!("REPLAY-EXPECT: value {}", w),
        None => println!("REPLAY-EXPECT: error"),
    }
}

//@harness tier=quick timeout=300 desc="std.parseHex accepts exactly [0-9a-fA-F]+ and returns the positional value" bounds="every well-formed UTF-8 string of <= 3 bytes"
#[kani::proof]
#[kani::unwind(5)]
pub fn parse_hex() {
    let s = SymStr::<N>::any_utf8();
    let want = ref_nat(&s.b, s.n, 16);
    #[cfg(verif_playback)]
    replay_parse("parseHex", &s, want);
    let r = builtin_parse_hex(IStr(s.as_static()));
    assert!(same(&r, want), "C11.parseHex accepts exactly hex digits with their positional value");
    kani::cover!(want.is_some() && s.n == N, "three hex digits reached");
    kani::cover!(want.is_none() && s.n > 0 && s.b[0] > b'9' && s.b[0] < b'A', "byte between '9' and 'A' reached");
    kani::cover!(s.n == 2 && s.b[0] >= 0xC2, "two-byte scalar reached");
}

//@harness tier=quick timeout=300 desc="std.parseOctal accepts exactly [0-7]+" bounds="every well-formed UTF-8 string of <= 3 bytes"
#[kani::proof]
#[kani::unwind(5)]
pub fn parse_octal() {
    let s = SymStr::<N>::any_utf8();
    let want = ref_nat(&s.b, s.n, 8);
    #[cfg(verif_playback)]
    replay_parse("parseOctal", &s, want);
    let r = builtin_parse_octal(IStr(s.as_static()));
    assert!(same(&r, want), "C11.parseOctal accepts exactly octal digits with their positional value");
    kani::cover!(want.is_some() && s.n == N, "three octal digits reached");
    kani::cover!(want.is_none() && s.n == 1 && (s.b[0] == b'8' || s.b[0] == b'9'), "8/9 rejected reached");
}

//@harness tier=quick timeout=300 desc="std.parseInt accepts exactly -?[0-9]+ and returns the signed decimal value" bounds="every well-formed UTF-8 string of <= 3 bytes"
#[kani::proof]
#[kani::unwind(5)]
pub fn parse_int() {
    let s = SymStr::<N>::any_utf8();
    let want = if s.n > 0 && s.b[0] == b'-' {
        // digits after the sign
        let mut t = [0u8; N];
        let mut i = 1;
        while i < N {
            t[i - 1] = s.b[i];
            i += 1;
        }
        ref_nat(&t, s.n - 1, 10).map(|v| -v)
    } else {
        ref_nat(&s.b, s.n, 10)
    };
    #[cfg(verif_playback)]
    replay_parse("parseInt", &s, want);
    let r = builtin_parse_int(IStr(s.as_static()));
    assert!(same(&r, want), "C11.parseInt accepts exactly an optional minus and decimal digits");
    kani::cover!(want.is_some() && s.b[0] == b'-', "negative number reached");
    kani::cover!(want.is_none() && s.n == 1 && s.b[0] == b'-', "lone minus reached");
    kani::cover!(want.is_none() && s.n == 2 && s.b[1] == b'-', "inner minus reached");
}

// ------------------------------------------------------------------------------------------------
// code points
// ------------------------------------------------------------------------------------------------
//@harness tier=quick timeout=300 desc="std.char / std.codepoint are mutually inverse on scalar values; surrogates and values above U+10FFFF are errors" bounds="every u32"
#[kani::proof]
#[kani::unwind(5)]
pub fn char_codepoint() {
    let n: u32 = kani::any();
    let scalar = n < 0xD800 || (n >= 0xE000 && n <= 0x10FFFF);
    #[cfg(verif_playback)]
    {
        println!("REPLAY-INPUT: n={}", n);
        println!("REPLAY-JSONNET: std.codepoint(std.char({}))", n);
        if scalar {
            println!("REPLAY-EXPECT: value {}", n);
        } else {
            println!("REPLAY-EXPECT: error");
        }
    }
    match builtin_char(n) {
        Ok(c) => {
            assert!(scalar, "C11.char.rejects non-scalar code point accepted");
            assert!(builtin_codepoint(c) == n, "C11.codepoint_of_char round trip");
        }
        Err(e) => {
            assert!(!scalar, "C11.char.accepts scalar value rejected");
            assert!(e == Error(ErrorKind::InvalidUnicodeCodepointGot(n)), "C11.char.error_kind");
        }
    }
    kani::cover!(n >= 0xD800 && n < 0xE000, "surrogate reached");
    kani::cover!(n > 0x10FFFF, "beyond Unicode reached");
    kani::cover!(n > 0xFFFF && scalar, "astral scalar reached");
}

// ------------------------------------------------------------------------------------------------
// findSubstr
// ------------------------------------------------------------------------------------------------
const T: usize = 4;
const P: usize = 2;
fn is_boundary(b: &[u8; T], n: usize, p: usize) -> bool {
    p == n || (p < n && (b[p] & 0xC0) != 0x80)
}
macro_rules! find_substr_harness {
    ($name:ident, $t:literal, $p:literal) => {
        #[kani::proof]
        #[kani::unwind(7)]
        pub fn $name() {
            // lengths are concrete per harness (symbolic-length memcmp / char counting inside std is
            // what makes CBMC slow); the bytes are symbolic
            let text = SymStr::<$t>::any_utf8_len($t);
            let pat = SymStr::<$p>::any_utf8_len($p);
            // reference: scan character positions
            let mut want = [0usize; $t];
            let mut cnt = 0;
            let mut ch = 0;
            let mut p = 0;
            while p < $t {
                if p < text.n && (text.b[p] & 0xC0) != 0x80 {
                    if pat.n > 0 && p + pat.n <= text.n {
                        let mut ok = true;
                        let mut k = 0;
                        while k < $p {
                            if k < pat.n && text.b[p + k] != pat.b[k] {
                                ok = false;
                            }
                            k += 1;
                        }
                        if ok {
                            want[cnt] = ch;
                            cnt += 1;
                        }
                    }
                    ch += 1;
                }
                p += 1;
            }
            #[cfg(verif_playback)]
            {
                println!("REPLAY-INPUT: pat={:?} text={:?}", pat.as_str(), text.as_str());
                println!("REPLAY-JSONNET: std.findSubstr({}, {})", pat.jsonnet(), text.jsonnet());
                let w: Vec<String> = want[..cnt].iter().map(|x| x.to_string()).collect();
                println!("REPLAY-EXPECT: value [{}]", w.join(","));
            }
            let out = builtin_find_substr(IStr(pat.as_static()), IStr(text.as_static()));
            assert!(out.0.len() == cnt, "C11.findSubstr.count number of occurrences");
            let mut i = 0;
            while i < $t {
                if i < cnt && i < out.0.len() {
                    assert!(matches!(&out.0[i], Val::Num(x) if x.get() == want[i] as f64), "C11.findSubstr.index code-point index of an occurrence");
                }
                i += 1;
            }
            kani::cover!($t < $p + 2 || cnt >= 2, "two occurrences reached (when the text is long enough)");
            kani::cover!($t < $p + 2 || (cnt == 1 && want[0] == 1 && text.b[0] >= 0xC2), "occurrence after a multi-byte character reached (when the text is long enough)");
            kani::cover!(cnt == 0, "no occurrence reached");
        }
    };
}
//@harness name=find_substr_4_2 tier=quick timeout=600 unwind=7 desc="std.findSubstr returns the code-point indexes of every (possibly overlapping) occurrence" bounds="text: every well-formed UTF-8 string of exactly 4 bytes, pattern exactly 2 bytes"
find_substr_harness!(find_substr_4_2, 4, 2);
//@harness name=find_substr_3_1 tier=quick timeout=600 unwind=7 desc="same" bounds="text exactly 3 bytes, pattern exactly 1 byte"
find_substr_harness!(find_substr_3_1, 3, 1);
//@harness name=find_substr_4_1 tier=quick timeout=600 unwind=7 desc="same" bounds="text exactly 4 bytes, pattern exactly 1 byte"
find_substr_harness!(find_substr_4_1, 4, 1);
//@harness name=find_substr_3_2 tier=quick timeout=600 unwind=7 desc="same" bounds="text exactly 3 bytes, pattern exactly 2 bytes"
find_substr_harness!(find_substr_3_2, 3, 2);
//@harness name=find_substr_2_2 tier=quick timeout=600 unwind=7 desc="same (pattern as long as the text)" bounds="text exactly 2 bytes, pattern exactly 2 bytes"
find_substr_harness!(find_substr_2_2, 2, 2);
//@harness name=find_substr_1_2 tier=quick timeout=600 unwind=7 desc="same (pattern longer than the text)" bounds="text exactly 1 byte, pattern exactly 2 bytes"
find_substr_harness!(find_substr_1_2, 1, 2);

// ------------------------------------------------------------------------------------------------
// substr / trim
// ------------------------------------------------------------------------------------------------
/// byte offset of the k-th character (or n if there are fewer)
fn char_offset(b: &[u8; T], n: usize, k: usize) -> usize {
    let mut seen = 0;
    let mut p = 0;
    while p < T {
        if p < n && is_boundary(b, n, p) {
            if seen == k {
                return p;
            }
            seen += 1;
        }
        p += 1;
    }
    n
}
//@harness tier=quick timeout=600 desc="std.substr(s, from, len) is the code-point substring" bounds="s: every well-formed UTF-8 string <= 4 bytes, from,len <= 6"
#[kani::proof]
#[kani::unwind(7)]
pub fn substr() {
    let text = SymStr::<T>::any_utf8();
    let from: usize = kani::any();
    let len: usize = kani::any();
    kani::assume(from <= 6 && len <= 6);
    let bs = char_offset(&text.b, text.n, from);
    let be = char_offset(&text.b, text.n, from + len);
    #[cfg(verif_playback)]
    {
        println!("REPLAY-INPUT: text={:?} from={} len={}", text.as_str(), from, len);
        println!("REPLAY-JSONNET: std.substr({}, {}, {})", text.jsonnet(), from, len);
        println!("REPLAY-EXPECT: value {}", SymStr::<T> { b: { let mut o = [0u8; T]; o[..be - bs].copy_from_slice(&text.b[bs..be]); o }, n: be - bs }.jsonnet());
    }
    let out = builtin_substr(IStr(text.as_static()), from, len);
    let ob = out.as_bytes();
    assert!(ob.len() == be - bs, "C11.substr.len length of the code-point substring");
    let mut i = 0;
    while i < T {
        if i < ob.len() && i < be - bs {
            assert!(ob[i] == text.b[bs + i], "C11.substr.bytes content of the code-point substring");
        }
        i += 1;
    }
    kani::cover!(be - bs == 3 && from == 1, "substring after the first character reached");
    kani::cover!(from >= 5, "start beyond the end reached");
    kani::cover!(be > bs && text.b[bs] >= 0xC2, "substring starting at a multi-byte character reached");
}

fn is_ws(c: char) -> bool {
    matches!(c, ' ' | '\t' | '\n' | '\u{c}' | '\r' | '\u{85}' | '\u{a0}')
}
//@harness tier=quick timeout=600 desc="std.trim removes exactly the documented whitespace set from both ends" bounds="strings c1 x c2 with c1,c2 any scalar <= U+FFFF encodable in <= 2 bytes... (one- and three-character strings, middle character not whitespace)"
#[kani::proof]
#[kani::unwind(8)]
pub fn trim() {
    let c: char = kani::any();
    kani::assume((c as u32) < 0x800);
    let mid: bool = kani::any();
    let mut buf = [0u8; 5];
    let mut n = c.encode_utf8(&mut buf[..2]).len();
    if mid {
        buf[n] = b'x';
        n += 1;
        let m = c.encode_utf8(&mut [0u8; 2]).len();
        let (a, b2) = buf.split_at_mut(n);
        let mut t = [0u8; 2];
        let l = c.encode_utf8(&mut t).len();
        b2[0] = t[0];
        if l == 2 {
            b2[1] = t[1];
        }
        n += m;
    }
    let s: &'static str = unsafe { core::mem::transmute(core::str::from_utf8_unchecked(&buf[..n])) };
    #[cfg(verif_playback)]
    {
        println!("REPLAY-INPUT: c=U+{:04X} mid={}", c as u32, mid);
        println!("REPLAY-JSONNET: std.length(std.trim(std.char({}){}))", c as u32, if mid { std::format!(" + \"x\" + std.char({})", c as u32) } else { String::new() });
        println!("REPLAY-EXPECT: value {}", if is_ws(c) { if mid { 1 } else { 0 } } else if mid { 3 } else { 1 });
    }
    let out = builtin_trim(IStr(s));
    if is_ws(c) {
        assert!(out.as_bytes().len() == if mid { 1 } else { 0 }, "C11.trim.strips documented whitespace must be removed");
    } else {
        assert!(out.as_bytes().len() == n, "C11.trim.keeps other characters must be kept");
    }
    kani::cover!(is_ws(c) && (c as u32) > 0x7f, "non-ASCII whitespace reached");
    kani::cover!(!is_ws(c) && mid, "kept three-character string reached");
}

// ------------------------------------------------------------------------------------------------
// string slicing
// ------------------------------------------------------------------------------------------------
//@harness tier=thorough optional=1 timeout=3600 desc="std.slice on a string with negative indexes (normalised against the length) never panics and yields the documented slice" bounds="s: empty or one ASCII character; from: every negative i32; to: none or every negative i32; step 1"
#[kani::proof]
#[kani::unwind(6)]
pub fn str_slice_negative_indexes() {
    use crate::slice::{BoundedUsize, IndexableVal, IStr as SIStr};
    let one: bool = kani::any();
    // concrete lengths 0 and 1 (a symbolic length is not decided: see DESIGN §5)
    let text = if one { SymStr::<1>::any_ascii_len(1) } else { SymStr::<1>::any_ascii_len(0) };
    let from: i32 = kani::any();
    let to: Option<i32> = kani::any();
    kani::assume(from < 0);
    if let Some(t) = to {
        kani::assume(t < 0);
    }
    #[cfg(verif_playback)]
    {
        let o = |p: Option<i32>| p.map_or("null".to_string(), |v| v.to_string());
        println!("REPLAY-INPUT: text={:?} from={} to={:?}", text.as_str(), from, to);
        println!("REPLAY-JSONNET: std.slice({}, {}, {}, 1)", text.jsonnet(), from, o(to));
        // from < 0 normalises to 0 for a string of <= 1 character; a negative `to` normalises to 0
        println!("REPLAY-EXPECT: value {}", if to.is_none() { text.jsonnet() } else { "\"\"".to_string() });
    }
    let r = IndexableVal::Str(SIStr::from(text.as_str())).slice(Some(from), to, None);
    match r {
        Ok(IndexableVal::Str(s)) => {
            let want_len = if to.is_none() { text.n } else { 0 };
            assert!(s.as_bytes().len() == want_len, "C11.str_slice.negative negative indexes count from the end and saturate at 0");
        }
        _ => assert!(false, "C11.str_slice.total slicing a string must give a string"),
    }
    kani::cover!(from == i32::MIN, "from == i32::MIN reached");
    kani::cover!(to == Some(i32::MIN), "to == i32::MIN reached");
    kani::cover!(text.n == 1 && to.is_none(), "whole one-character string reached");
}

//@harness tier=thorough optional=1 timeout=3600 desc="str[from:to:step] / std.slice on strings is the Python-style code-point slice (skip/take/step_by adaptor chain over Chars: not decided within 15 min in the quick tier)" bounds="s: every well-formed UTF-8 string of exactly 3 bytes, from/to: none or -5..=5, step 1..=3"
#[kani::proof]
#[kani::unwind(6)]
pub fn str_slice() {
    use crate::slice::{BoundedUsize, IndexableVal, IStr as SIStr};
    let text = SymStr::<N>::any_utf8_len(N);
    let from: Option<i32> = kani::any();
    let to: Option<i32> = kani::any();
    if let Some(f) = from {
        kani::assume(f >= -5 && f <= 5);
    }
    if let Some(t) = to {
        kani::assume(t >= -5 && t <= 5);
    }
    let step: usize = kani::any();
    kani::assume(step >= 1 && step <= 3);
    // reference
    let mut nchars = 0usize;
    let mut p = 0;
    while p < N {
        if p < text.n && (text.b[p] & 0xC0) != 0x80 {
            nchars += 1;
        }
        p += 1;
    }
    let l = nchars as i64;
    let f = match from {
        None => 0,
        Some(v) if v < 0 => (l + v as i64).max(0),
        Some(v) => v as i64,
    };
    let t = match to {
        None => l,
        Some(v) if v < 0 => (l + v as i64).max(0),
        Some(v) => (v as i64).min(l),
    };
    // selected characters: f, f+step, ... < t
    let mut want = [0u8; N];
    let mut wn = 0;
    let mut ci: i64 = 0;
    let mut p = 0;
    while p < N {
        if p < text.n && (text.b[p] & 0xC0) != 0x80 {
            if ci >= f && ci < t && (ci - f) % step as i64 == 0 {
                // copy this character
                let mut q = p;
                want[wn] = text.b[q];
                wn += 1;
                q += 1;
                while q < N && q < text.n && (text.b[q] & 0xC0) == 0x80 {
                    want[wn] = text.b[q];
                    wn += 1;
                    q += 1;
                }
            }
            ci += 1;
        }
        p += 1;
    }
    #[cfg(verif_playback)]
    {
        let o = |p: Option<i32>| p.map_or("null".to_string(), |v| v.to_string());
        println!("REPLAY-INPUT: text={:?} from={:?} to={:?} step={}", text.as_str(), from, to, step);
        println!("REPLAY-JSONNET: std.slice({}, {}, {}, {})", text.jsonnet(), o(from), o(to), step);
        println!("REPLAY-EXPECT: value {}", SymStr::<N> { b: want, n: wn }.jsonnet());
    }
    let r = IndexableVal::Str(SIStr::from(text.as_str())).slice(from, to, Some(BoundedUsize::<1, { i32::MAX as usize }>(step)));
    match r {
        Ok(IndexableVal::Str(s)) => {
            let ob = s.as_bytes();
            assert!(ob.len() == wn, "C11.str_slice.len length of the sliced string");
            let mut i = 0;
            while i < N {
                if i < wn && i < ob.len() {
                    assert!(ob[i] == want[i], "C11.str_slice.bytes content of the sliced string");
                }
                i += 1;
            }
        }
        _ => assert!(false, "C11.str_slice.ok slicing a string must give a string"),
    }
    kani::cover!(wn == N, "whole string selected reached");
    kani::cover!(wn > 0 && step == 2 && nchars == 3, "stepped slice reached");
    kani::cover!(matches!(from, Some(v) if v < -3), "very negative start reached");
}
