use crate::stack::*;

enum Guard {
    Depth(StackDepthGuard),
    Limit(StackDepthLimitOverrideGuard),
}
const DEFAULT_LIMIT: usize = 200;

/// frames that can still be entered, observed through the public API only
fn available_frames() -> usize {
    let mut n = 0;
    while n <= DEFAULT_LIMIT + 1 {
        match check_depth() {
            Ok(g) => {
                core::mem::forget(g);
                n += 1;
            }
            Err(_) => return n,
        }
    }
    n
}

//@harness tier=quick timeout=900 desc="every LIFO history of entering frames, leaving frames and overriding the limit: a frame is admitted exactly while depth < limit, an exhausted limit is a StackOverflow error (never a panic), and once every guard is dropped the thread has its full default budget again" bounds="4 operations (enter / leave the newest guard / override the limit by d <= 3), then full unwinding"
#[kani::proof]
#[kani::unwind(205)]
pub fn stack_lifo_history() {
    let mut guards: [Option<Guard>; 4] = [None, None, None, None];
    let mut top = 0usize;
    // model
    let mut depth = 0usize;
    let mut limits = [DEFAULT_LIMIT; 5];
    let mut lt = 0usize; // limits[lt] is the current limit
    let mut step = 0;
    while step < 4 {
        let op: u8 = kani::any();
        kani::assume(op < 3);
        match op {
            0 => {
                let r = check_depth();
                assert!(r.is_ok() == (depth < limits[lt]), "C04.stack.admit a frame is admitted exactly while the depth is below the limit");
                if let Ok(g) = r {
                    guards[top] = Some(Guard::Depth(g));
                    top += 1;
                    depth += 1;
                }
            }
            1 => {
                if top > 0 {
                    top -= 1;
                    match guards[top].take() {
                        Some(Guard::Depth(g)) => {
                            drop(g);
                            depth -= 1;
                        }
                        Some(Guard::Limit(g)) => {
                            drop(g);
                            lt -= 1;
                        }
                        None => {}
                    }
                }
            }
            _ => {
                let d: usize = kani::any();
                kani::assume(d <= 3);
                let g = limit_stack_depth(d);
                guards[top] = Some(Guard::Limit(g));
                top += 1;
                lt += 1;
                limits[lt] = depth + d;
            }
        }
        step += 1;
    }
    kani::cover!(lt == 2, "nested limit overrides reached");
    kani::cover!(depth == 3, "three nested frames reached");
    // unwind everything in LIFO order
    while top > 0 {
        top -= 1;
        guards[top] = None;
    }
    let avail = available_frames();
    assert!(avail == DEFAULT_LIMIT, "C16.stack.restored after any history (also one stopped by the limit) the thread has its whole frame budget again");
}

//@harness tier=quick timeout=600 desc="limit_stack_depth(d) at depth 0 admits exactly d nested frames, the (d+1)-th is a StackOverflow error, dropping the override restores the default" bounds="d <= 6"
#[kani::proof]
#[kani::unwind(205)]
pub fn stack_limit_exact() {
    let d: usize = kani::any();
    kani::assume(d <= 6);
    {
        let _o = limit_stack_depth(d);
        let n = available_frames();
        assert!(n == d, "C04.stack.limit exactly the configured number of frames is admitted");
        // the forgotten guards above model frames that are still active; nothing to drop
    }
    kani::cover!(d == 0, "limit 0 reached");
    kani::cover!(d == 6, "limit 6 reached");
}
