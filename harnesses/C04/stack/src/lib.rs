//! C04 / C16 — `jrsonnet-evaluator/src/stack.rs` (frame-depth limit), compiled unmodified as a
//! module of this crate; driven through its public API only.
#![allow(unused, dead_code, clippy::all)]
//@include ../../../../prelude/generic_error.in
mod prelude;
#[path = "@REPO@/crates/jrsonnet-evaluator/src/stack.rs"]
pub mod stack;
#[cfg(kani)]
mod harnesses;
