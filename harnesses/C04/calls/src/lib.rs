//! C04 / C01 — `function/prepared.rs::prepare_call`: matching a call shape (number of positional
//! arguments, list of argument names) against a function signature. This is the path top-level
//! arguments (`--tla-*`) and key functions take. Extracted verbatim; names are one-byte tokens.
#![allow(unused, dead_code, clippy::all, non_local_definitions)]
macro_rules! bail {
    ($lit:literal $(, $($rest:tt)*)?) => {
        return Err($crate::error::Error($crate::error::ErrorKind::RuntimeError($lit)))
    };
    ($e:expr) => {
        return Err($crate::error::Error::from($e))
    };
}
mod prelude;
pub mod error {
    use crate::sig::{FunctionSignature, IStr, ParamName};
    #[derive(Debug, Clone)]
    pub enum ErrorKind {
        TooManyArgsFunctionHas(usize, FunctionSignature),
        UnknownFunctionParameter(IStr),
        BindingParameterASecondTime(IStr),
        FunctionParameterNotBoundInCall(ParamName, FunctionSignature),
        RuntimeError(&'static str),
    }
    #[derive(Debug, Clone)]
    pub struct Error(pub ErrorKind);
    impl From<ErrorKind> for Error {
        fn from(k: ErrorKind) -> Self {
            Error(k)
        }
    }
    pub type Result<T, E = Error> = core::result::Result<T, E>;
}
pub mod sig {
    use std::fmt;
    use std::ops::Deref;
    /// interned name: a token
    #[derive(Clone, Copy, Debug, PartialEq, Eq)]
    pub struct IStr(pub u8);
    impl fmt::Display for IStr {
        fn fmt(&self, _f: &mut fmt::Formatter<'_>) -> fmt::Result {
            Ok(())
        }
    }
    impl Deref for IStr {
        type Target = str;
        fn deref(&self) -> &str {
            ""
        }
    }
    //@extract crates/jrsonnet-ir/src/function.rs :: enum ParamName
    //@extract crates/jrsonnet-ir/src/function.rs :: impl ParamName
    //@extract crates/jrsonnet-ir/src/function.rs :: impl PartialEq<IStr> for ParamName
    //@extract crates/jrsonnet-ir/src/function.rs :: enum ParamDefault
    //@extract crates/jrsonnet-ir/src/function.rs :: struct ParamParse
    //@extract crates/jrsonnet-ir/src/function.rs :: impl ParamParse
    pub const MAXP: usize = 3;
    /// `Rc<[ParamParse]>` stand-in: at most three parameters held inline
    #[derive(Debug, Clone)]
    pub struct FunctionSignature {
        pub p: [ParamParse; MAXP],
        pub n: usize,
    }
    impl Deref for FunctionSignature {
        type Target = [ParamParse];
        fn deref(&self) -> &Self::Target {
            &self.p[..self.n]
        }
    }
}
pub mod prepared {
    use crate::error::{ErrorKind::*, Result};
    use crate::sig::*;
    /// `Vec` stand-in: fixed capacity; `with_capacity` states the documented contract of the real one
    /// ("Panics if the new capacity exceeds isize::MAX bytes").
    #[derive(Debug)]
    pub struct Vec<T> {
        pub items: [Option<T>; 4],
        pub len: usize,
    }
    impl<T> Vec<T> {
        pub fn with_capacity(c: usize) -> Self {
            assert!(c <= isize::MAX as usize / core::mem::size_of::<T>().max(1), "capacity overflow");
            Vec { items: [None, None, None, None], len: 0 }
        }
        pub fn push(&mut self, v: T) {
            assert!(self.len < 4, "harness: Vec stand-in capacity exceeded");
            self.items[self.len] = Some(v);
            self.len += 1;
        }
        pub fn len(&self) -> usize {
            self.len
        }
    }
    /// `FxHashSet<usize>` stand-in: a bit mask over parameter indexes
    pub struct FxHashSet<T> {
        pub mask: u64,
        _t: core::marker::PhantomData<T>,
    }
    impl FxHashSet<usize> {
        pub fn insert(&mut self, i: usize) -> bool {
            assert!(i < 64, "harness: set stand-in holds indexes < 64");
            let fresh = self.mask & (1 << i) == 0;
            self.mask |= 1 << i;
            fresh
        }
        pub fn contains(&self, i: &usize) -> bool {
            *i < 64 && self.mask & (1 << *i) != 0
        }
    }
    impl FromIterator<usize> for FxHashSet<usize> {
        fn from_iter<I: IntoIterator<Item = usize>>(it: I) -> Self {
            let mut s = FxHashSet { mask: 0, _t: core::marker::PhantomData };
            for i in it {
                s.insert(i);
            }
            s
        }
    }
    //@extract crates/jrsonnet-evaluator/src/function/prepared.rs :: struct PreparedCall || s/\bnamed: Vec/pub named: Vec/1 || s/\bdefaults: Vec/pub defaults: Vec/1
    //@extract crates/jrsonnet-evaluator/src/function/prepared.rs :: fn prepare_call
}
#[cfg(kani)]
mod harnesses;
