//! A call shape is accepted exactly when it binds every parameter once; nothing panics.
use crate::error::*;
use crate::prepared::*;
use crate::sig::*;

fn any_param() -> (ParamParse, Option<u8>, bool) {
    let named: bool = kani::any();
    let tok: u8 = kani::any();
    kani::assume(tok < 3);
    let has_default: bool = kani::any();
    let name = if named { ParamName::Named(IStr(tok)) } else { ParamName::Unnamed };
    let def = if has_default { ParamDefault::Exists } else { ParamDefault::None };
    (ParamParse::new(name, def), if named { Some(tok) } else { None }, has_default)
}

//@harness name=prepare_call_total tier=quick timeout=600 unwind=6 desc="prepare_call: no panic (also with more arguments than parameters), Ok exactly when every parameter is bound once or has a default, with the right named/default index lists" bounds="signatures of 0..=3 parameters (named with distinct names out of 3 tokens, or anonymous; with or without default), any number of positional arguments (usize), 0..=3 argument names out of 4 tokens"
#[kani::proof]
#[kani::unwind(6)]
pub fn prepare_call_total() {
    body(kani::any(), false);
}
//@harness name=prepare_call_tla tier=quick timeout=600 unwind=6 desc="same with no positional arguments: the shape of a top-level-argument call (replayed on the command line with --tla-str)" bounds="signatures of 0..=3 parameters, 0 positional arguments, 0..=3 distinct argument names out of 4 tokens"
#[kani::proof]
#[kani::unwind(6)]
pub fn prepare_call_tla() {
    body(0, true);
}
fn body(unnamed: usize, distinct_names: bool) {
    let (p0, n0, d0) = any_param();
    let (p1, n1, d1) = any_param();
    let (p2, n2, d2) = any_param();
    let n: usize = kani::any();
    kani::assume(n <= MAXP);
    // parameter names of one signature are distinct (the parsers reject duplicates)
    kani::assume(!(n >= 2 && n0.is_some() && n0 == n1));
    kani::assume(!(n >= 3 && n0.is_some() && n0 == n2));
    kani::assume(!(n >= 3 && n1.is_some() && n1 == n2));
    let pn = [n0, n1, n2];
    let pd = [d0, d1, d2];
    let params = FunctionSignature { p: [p0, p1, p2], n };
    let k: usize = kani::any();
    kani::assume(k <= 3);
    let toks: [u8; 3] = kani::any();
    kani::assume(toks[0] < 4 && toks[1] < 4 && toks[2] < 4);
    let names = [IStr(toks[0]), IStr(toks[1]), IStr(toks[2])];
    if distinct_names {
        // top-level arguments are the keys of a map
        kani::assume(!(k >= 2 && toks[0] == toks[1]));
        kani::assume(!(k >= 3 && (toks[0] == toks[2] || toks[1] == toks[2])));
    }
    #[cfg(verif_playback)]
    {
        println!("REPLAY-INPUT: params={:?} n={} unnamed={} named={:?}", &params.p[..n], n, unnamed, &names[..k]);
        // top-level arguments reach prepare_call with unnamed = 0
        if unnamed == 0 {
            let mut sig = std::string::String::new();
            for i in 0..n {
                if i > 0 {
                    sig.push_str(", ");
                }
                match pn[i] {
                    Some(t) => sig.push_str(&std::format!("p{}", t)),
                    None => sig.push_str(&std::format!("q{}", i)),
                }
                if pd[i] {
                    sig.push_str("=0");
                }
            }
            let mut args = std::vec::Vec::new();
            for j in 0..k {
                args.push(std::format!("\"--tla-str\", \"p{}=x\"", toks[j]));
            }
            println!("REPLAY-ARGS: [{}]", args.join(", "));
            println!("REPLAY-JSONNET: function({}) 1", sig);
            println!("REPLAY-EXPECT: nocrash");
        }
    }
    let r = prepare_call(params, unnamed, &names[..k]);

    // reference
    let mut ok = unnamed <= n;
    let mut passed = [false; MAXP];
    let mut i = 0;
    while i < MAXP {
        if i < unnamed {
            passed[i] = true;
        }
        i += 1;
    }
    let mut j = 0;
    while j < 3 {
        if j < k && ok {
            let mut idx = MAXP;
            let mut i = 0;
            while i < MAXP {
                if i < n && pn[i] == Some(toks[j]) {
                    idx = i;
                }
                i += 1;
            }
            if idx == MAXP || passed[idx] {
                ok = false;
            } else {
                passed[idx] = true;
            }
        }
        j += 1;
    }
    let mut i = 0;
    while i < MAXP {
        if i < n && !passed[i] && !pd[i] {
            ok = false;
        }
        i += 1;
    }
    assert!(r.is_ok() == ok, "C04.calls.accepts prepare_call accepts a call shape that does not bind every parameter exactly once, or rejects one that does");
    if let Ok(ops) = &r {
        assert!(ops.named.len() == k, "C04.calls.named every argument name is bound to a parameter");
        let mut i = 0;
        let mut want_defaults = 0;
        while i < MAXP {
            if i < n && !passed[i] {
                want_defaults += 1;
            }
            i += 1;
        }
        assert!(ops.defaults.len() == want_defaults, "C04.calls.defaults exactly the unbound parameters take their defaults");
    }
    kani::cover!(r.is_ok() && k == 2 && n == 3, "two named arguments accepted reached");
    kani::cover!(r.is_err() && k > n, "more names than parameters reached");
}
