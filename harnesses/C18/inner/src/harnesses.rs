//! Reference-count / content / utf8-flag model of `Inner` under every short history of handle operations.
use crate::inner::Inner;

const SLOTS: usize = 3;

fn model_utf8(b: &[u8; 2], n: usize) -> bool {
    match n {
        0 => true,
        1 => b[0] < 0x80,
        _ => (b[0] < 0x80 && b[1] < 0x80) || (b[0] >= 0xC2 && b[0] <= 0xDF && b[1] >= 0x80 && b[1] <= 0xBF),
    }
}

macro_rules! history {
    ($name:ident, $steps:literal, $from_str:literal, $n:literal) => {
        #[kani::proof]
        #[kani::unwind(6)]
        pub fn $name() {
            let b: [u8; 2] = kani::any();
            // the content *length* is concrete per harness (an allocation of symbolic size exhausts
            // CBMC's memory model); the bytes are symbolic
            let n: usize = $n;
            let utf8 = model_utf8(&b, n);
            let first = if $from_str {
                kani::assume(utf8);
                Inner::new_str(unsafe { core::str::from_utf8_unchecked(&b[..n]) })
            } else {
                Inner::new_bytes(&b[..n])
            };
            let mut slots: [Option<Inner>; SLOTS] = [Some(first), None, None];
            let mut live: u32 = 1;
            let mut step = 0;
            while step < $steps {
                let op: u8 = kani::any();
                let i: usize = kani::any();
                let j: usize = kani::any();
                kani::assume(op < 4 && i < SLOTS && j < SLOTS);
                match op {
                    // clone handle i into the empty slot j
                    0 => {
                        if slots[i].is_some() && slots[j].is_none() {
                            let c = slots[i].as_ref().unwrap().clone();
                            slots[j] = Some(c);
                            live += 1;
                        }
                    }
                    // drop handle i (never the last one: the buffer is gone afterwards)
                    1 => {
                        if slots[i].is_some() && live > 1 {
                            slots[i] = None;
                            live -= 1;
                        }
                    }
                    // check_utf8 through handle i
                    2 => {
                        if let Some(h) = &slots[i] {
                            assert!(Inner::check_utf8(h) == utf8, "C18.inner.check_utf8 answer equals validity of the content");
                        }
                    }
                    // observe through handle i
                    _ => {
                        if let Some(h) = &slots[i] {
                            assert!(Inner::strong_count(h) == live, "C18.inner.count strong_count equals the number of live handles");
                            let s = h.as_slice();
                            assert!(s.len() == n, "C18.inner.len content length never changes");
                            assert!(n < 1 || s[0] == b[0], "C18.inner.content content never changes");
                            assert!(n < 2 || s[1] == b[1], "C18.inner.content content never changes");
                        }
                    }
                }
                step += 1;
            }
            // final observation through every live handle, then release everything (dealloc is checked by
            // Kani's pointer checks: no double free, no use after free)
            let mut k = 0;
            while k < SLOTS {
                if let Some(h) = &slots[k] {
                    assert!(Inner::strong_count(h) == live, "C18.inner.count strong_count equals the number of live handles");
                    assert!(h.as_slice().len() == n, "C18.inner.len content length never changes");
                }
                k += 1;
            }
            kani::cover!(live == 3, "three live handles reached");
            kani::cover!(live == 1 && slots[0].is_none(), "original handle dropped, clone alive reached");
        }
    };
}
//@harness name=inner_history_bytes tier=quick timeout=900 unwind=6 desc="Inner created from bytes: every history of 4 operations (clone / drop / check_utf8 / observe) over 3 handle slots keeps count, content and the cached utf8 flag consistent; memory is released exactly once" bounds="content of exactly 2 bytes (valid or invalid UTF-8), 4 operations, <= 3 simultaneous handles"
history!(inner_history_bytes, 4, false, 2);
//@harness name=inner_history_str tier=quick timeout=900 unwind=6 desc="same for Inner created from a str (utf8 flag set at creation)" bounds="content of exactly 2 bytes valid UTF-8, 4 operations, <= 3 handles"
history!(inner_history_str, 4, true, 2);
//@harness name=inner_history_bytes_6 tier=thorough optional=1 timeout=3600 unwind=8 desc="same, 6 operations" bounds="content <= 2 bytes, 6 operations, <= 3 handles"
history!(inner_history_bytes_6, 6, false, 2);
//@harness name=inner_history_bytes_len1 tier=quick timeout=900 unwind=6 desc="same, content of exactly 1 byte" bounds="content 1 byte, 4 operations, <= 3 handles"
history!(inner_history_bytes_len1, 4, false, 1);
//@harness name=inner_history_empty tier=quick timeout=900 unwind=6 desc="same, empty content" bounds="empty content, 4 operations, <= 3 handles"
history!(inner_history_empty, 4, false, 0);

//@harness tier=quick timeout=600 desc="the 31-bit count and the utf8 flag bit never corrupt each other: equality/ordering/ptr_eq of two buffers follow their contents" bounds="two buffers of lengths (2,2) or (1,2), symbolic bytes"
#[kani::proof]
#[kani::unwind(6)]
pub fn inner_eq_ord() {
    let a: [u8; 2] = kani::any();
    let b: [u8; 2] = kani::any();
    // lengths: (2,2) or (1,2), chosen by a symbolic bit but each allocation has a concrete size
    let short: bool = kani::any();
    let (na, nb): (usize, usize) = if short { (1, 2) } else { (2, 2) };
    let x = if short { Inner::new_bytes(&a[..1]) } else { Inner::new_bytes(&a[..2]) };
    let y = Inner::new_bytes(&b[..2]);
    let same = na == nb && (na < 1 || a[0] == b[0]) && (na < 2 || a[1] == b[1]);
    assert!((x == y) == same, "C18.inner.eq two buffers are equal exactly when their contents are");
    let c = x.clone();
    assert!(Inner::ptr_eq(&x, &c) && c == x, "C18.inner.clone_eq a clone is the same buffer");
    assert!(!Inner::ptr_eq(&x, &y), "C18.inner.distinct separate allocations are distinct");
    assert!((x.cmp(&y) == core::cmp::Ordering::Equal) == same, "C18.inner.ord ordering is by content");
    let _ = Inner::check_utf8(&x);
    assert!(Inner::strong_count(&x) == 2, "C18.inner.flag_keeps_count setting the utf8 flag leaves the count alone");
    kani::cover!(same && na == 2, "equal two-byte contents reached");
    kani::cover!(!same && na == nb, "same length, different content reached");
}
