//! C18 — the interned-buffer header (`jrsonnet-interner/src/inner.rs`): the file is compiled
//! *unmodified* as a module of this crate (it only depends on std).
#![allow(unused, dead_code, clippy::all)]
#[path = "@REPO@/crates/jrsonnet-interner/src/inner.rs"]
pub mod inner;
#[cfg(kani)]
mod harnesses;
