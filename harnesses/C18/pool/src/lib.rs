//! C18 — the pool half of `jrsonnet-interner/src/lib.rs`: `intern_bytes`, `intern_str`, the
//! `IStr`/`IBytes` handle types with their conversions and `Drop` impls, and `maybe_unpool`, extracted
//! verbatim and compiled against `inner.rs` (mounted unmodified) and a two-slot stand-in for the
//! thread-local hashbrown pool.
#![allow(unused, dead_code, clippy::all, static_mut_refs)]
#[path = "@REPO@/crates/jrsonnet-interner/src/inner.rs"]
pub mod inner;

pub mod pool {
    //! Stand-in for `thread_local! { static POOL: RefCell<HashMap<Inner, (), FxBuildHasher>> }`:
    //! a two-slot map compared by content (the real map hashes/compares `Inner` by content through
    //! `Borrow<[u8]>`), reachable through `with`/`try_with`. No destructor, no hashing.
    use crate::inner::Inner;
    use std::cell::RefCell;

    pub struct PoolMap {
        pub slots: [Option<Inner>; 2],
    }
    pub enum RawEntryMut<'a> {
        Occupied(Occupied<'a>),
        Vacant(Vacant<'a>),
    }
    pub struct Occupied<'a>(&'a Inner);
    pub struct Vacant<'a>(&'a mut Option<Inner>);
    static UNIT: () = ();
    impl<'a> Occupied<'a> {
        pub fn get_key_value(&self) -> (&'a Inner, &'static ()) {
            (self.0, &UNIT)
        }
    }
    impl<'a> Vacant<'a> {
        pub fn insert(self, k: Inner, _v: ()) -> (&'a mut Inner, &'static ()) {
            *self.0 = Some(k);
            (self.0.as_mut().unwrap(), &UNIT)
        }
    }
    pub struct RawEntryBuilder<'a>(&'a mut PoolMap);
    impl<'a> RawEntryBuilder<'a> {
        pub fn from_key(self, bytes: &[u8]) -> RawEntryMut<'a> {
            let m = self.0;
            let hit0 = matches!(&m.slots[0], Some(i) if i.as_slice() == bytes);
            let hit1 = matches!(&m.slots[1], Some(i) if i.as_slice() == bytes);
            if hit0 {
                RawEntryMut::Occupied(Occupied(m.slots[0].as_ref().unwrap()))
            } else if hit1 {
                RawEntryMut::Occupied(Occupied(m.slots[1].as_ref().unwrap()))
            } else if m.slots[0].is_none() {
                RawEntryMut::Vacant(Vacant(&mut m.slots[0]))
            } else {
                // harness invariant: at most two distinct contents are ever interned
                assert!(m.slots[1].is_none(), "harness: pool stand-in capacity exceeded");
                RawEntryMut::Vacant(Vacant(&mut m.slots[1]))
            }
        }
    }
    impl PoolMap {
        pub fn raw_entry_mut(&mut self) -> RawEntryBuilder<'_> {
            RawEntryBuilder(self)
        }
        pub fn remove(&mut self, k: &Inner) -> Option<()> {
            let mut i = 0;
            while i < 2 {
                if matches!(&self.slots[i], Some(x) if x == k) {
                    self.slots[i] = None;
                    return Some(());
                }
                i += 1;
            }
            None
        }
        pub fn is_empty(&self) -> bool {
            self.slots[0].is_none() && self.slots[1].is_none()
        }
        pub fn contains(&self, bytes: &[u8]) -> bool {
            matches!(&self.slots[0], Some(i) if i.as_slice() == bytes) || matches!(&self.slots[1], Some(i) if i.as_slice() == bytes)
        }
    }
    pub struct PoolKey;
    static mut STORE: Option<RefCell<PoolMap>> = None;
    impl PoolKey {
        fn cell(&self) -> &'static RefCell<PoolMap> {
            // single-threaded harness
            unsafe {
                if STORE.is_none() {
                    STORE = Some(RefCell::new(PoolMap { slots: [None, None] }));
                }
                STORE.as_ref().unwrap()
            }
        }
        pub fn with<R>(&'static self, f: impl FnOnce(&RefCell<PoolMap>) -> R) -> R {
            f(self.cell())
        }
        pub fn try_with<R>(&'static self, f: impl FnOnce(&RefCell<PoolMap>) -> R) -> Result<R, ()> {
            Ok(f(self.cell()))
        }
    }
    pub static POOL: PoolKey = PoolKey;
}

pub mod interner {
    use crate::inner::Inner;
    use crate::pool::{RawEntryMut, POOL};
    use std::ops::Deref;
    // the std modules the original file may name through its `use std::{..}` list
    use std::{borrow::Cow, cell::RefCell, fmt, hash::{Hash, Hasher}, mem, ptr, str};

    //@extract crates/jrsonnet-interner/src/lib.rs :: struct IStr
    //@extract crates/jrsonnet-interner/src/lib.rs :: struct IBytes
    impl IStr {
        //@extract crates/jrsonnet-interner/src/lib.rs :: fn IStr::cast_bytes
    }
    impl IBytes {
        //@extract crates/jrsonnet-interner/src/lib.rs :: fn IBytes::cast_str
        //@extract crates/jrsonnet-interner/src/lib.rs :: fn IBytes::cast_str_unchecked
        //@extract crates/jrsonnet-interner/src/lib.rs :: fn IBytes::as_slice
    }
    //@extract crates/jrsonnet-interner/src/lib.rs :: impl Deref for IStr
    //@extract crates/jrsonnet-interner/src/lib.rs :: impl PartialEq for IStr
    //@extract crates/jrsonnet-interner/src/lib.rs :: impl PartialEq for IBytes
    //@extract crates/jrsonnet-interner/src/lib.rs :: impl Drop for IStr
    //@extract crates/jrsonnet-interner/src/lib.rs :: impl Drop for IBytes
    //@extract crates/jrsonnet-interner/src/lib.rs :: fn maybe_unpool
    //@extract crates/jrsonnet-interner/src/lib.rs :: fn intern_bytes
    //@extract crates/jrsonnet-interner/src/lib.rs :: fn intern_str

    impl IStr {
        pub fn inner(&self) -> &Inner {
            &self.0
        }
    }
    impl IBytes {
        pub fn inner(&self) -> &Inner {
            &self.0
        }
    }
}
#[cfg(kani)]
mod harnesses;
