//! Pool invariant under every short history of intern / clone / convert / drop:
//!   * a content is in the pool exactly while some handle to it is alive ("values dropped to zero references leave the pool"),
//!   * strong_count == live handles + 1 (the pool's own reference) — a leaked or missing reference shows up here,
//!   * two live handles are the same buffer exactly when their contents are equal (canonical interning), whatever
//!     mixture of IStr / IBytes they are.
use crate::inner::Inner;
use crate::interner::{intern_bytes, intern_str, IBytes, IStr};
use crate::pool::POOL;

const SLOTS: usize = 2;

pub enum H {
    S(IStr),
    B(IBytes),
}
impl H {
    fn inner(&self) -> &Inner {
        match self {
            H::S(s) => s.inner(),
            H::B(b) => b.inner(),
        }
    }
}

fn live_of(content: &[Option<u8>; SLOTS], v: u8) -> u32 {
    let mut n = 0;
    let mut k = 0;
    while k < SLOTS {
        if content[k] == Some(v) {
            n += 1;
        }
        k += 1;
    }
    n
}

fn check(slots: &[Option<H>; SLOTS], content: &[Option<u8>; SLOTS], vals: [u8; 2]) {
    let mut k = 0;
    while k < SLOTS {
        assert!(slots[k].is_some() == content[k].is_some(), "harness: model out of step");
        if let Some(h) = &slots[k] {
            let v = content[k].unwrap();
            let s = h.inner().as_slice();
            assert!(s.len() == 1 && s[0] == v, "C18.pool.content live values keep their contents");
            assert!(Inner::strong_count(h.inner()) == live_of(content, v) + 1, "C18.pool.count strong_count equals live handles plus the pool's reference");
            let mut j = 0;
            while j < SLOTS {
                if let Some(o) = &slots[j] {
                    assert!(Inner::ptr_eq(h.inner(), o.inner()) == (content[j] == Some(v)), "C18.pool.canonical handles share a buffer exactly when their contents are equal");
                }
                j += 1;
            }
        }
        k += 1;
    }
    let mut c = 0;
    while c < 2 {
        let present = POOL.with(|p| p.borrow().contains(&[vals[c]]));
        assert!(present == (live_of(content, vals[c]) > 0), "C18.pool.membership a content is pooled exactly while a handle to it is alive");
        c += 1;
    }
}

macro_rules! pool_history {
    ($name:ident, $steps:literal) => {
        #[kani::proof]
        #[kani::unwind(5)]
        pub fn $name() {
            let vals: [u8; 2] = kani::any();
            let mut slots: [Option<H>; SLOTS] = [None, None];
            let mut content: [Option<u8>; SLOTS] = [None, None];
            let mut step = 0;
            let mut casts = 0;
            while step < $steps {
                let op: u8 = kani::any();
                let i: usize = kani::any();
                let j: usize = kani::any();
                let c: usize = kani::any();
                kani::assume(op < 5 && i < SLOTS && j < SLOTS && c < 2);
                match op {
                    0 => {
                        if slots[j].is_none() {
                            slots[j] = Some(H::B(intern_bytes(&[vals[c]])));
                            content[j] = Some(vals[c]);
                        }
                    }
                    1 => {
                        if slots[j].is_none() && vals[c] < 0x80 {
                            let b = [vals[c]];
                            slots[j] = Some(H::S(intern_str(unsafe { core::str::from_utf8_unchecked(&b) })));
                            content[j] = Some(vals[c]);
                        }
                    }
                    2 => {
                        if slots[i].is_some() && slots[j].is_none() {
                            let n = match slots[i].as_ref().unwrap() {
                                H::S(s) => H::S(s.clone()),
                                H::B(b) => H::B(b.clone()),
                            };
                            slots[j] = Some(n);
                            content[j] = content[i];
                        }
                    }
                    3 => {
                        slots[i] = None;
                        content[i] = None;
                    }
                    _ => {
                        // convert handle i in place: IStr -> IBytes always succeeds, IBytes -> IStr only for UTF-8
                        match slots[i].take() {
                            Some(H::S(s)) => {
                                slots[i] = Some(H::B(s.cast_bytes()));
                                casts += 1;
                            }
                            Some(H::B(b)) => match b.cast_str() {
                                Some(s) => {
                                    assert!(content[i].unwrap() < 0x80, "C18.pool.cast_str only UTF-8 contents convert to a string");
                                    slots[i] = Some(H::S(s));
                                    casts += 1;
                                }
                                None => {
                                    assert!(content[i].unwrap() >= 0x80, "C18.pool.cast_str UTF-8 contents always convert");
                                    content[i] = None;
                                }
                            },
                            None => {}
                        }
                    }
                }
                step += 1;
            }
            // every shorter history is a prefix padded with no-op steps (e.g. interning into an occupied slot), so
            // checking the final state of every history of N steps checks every state reachable in <= N steps
            check(&slots, &content, vals);
            kani::cover!(casts > 0 && live_of(&content, vals[0]) == 2, "a converted handle and a second handle to the same content reached");
            kani::cover!(vals[0] != vals[1] && live_of(&content, vals[0]) == 1 && live_of(&content, vals[1]) == 1, "two different contents alive reached");
            // release everything: the pool must be empty afterwards
            let mut k = 0;
            while k < SLOTS {
                slots[k] = None;
                content[k] = None;
                k += 1;
            }
            assert!(POOL.with(|p| p.borrow().is_empty()), "C18.pool.empty_after_release no entry stays pooled once every handle is dropped");
        }
    };
}
//@harness name=pool_history_3 tier=thorough optional=1 timeout=1800 unwind=5 desc="interner pool: every history of 3 operations (intern_bytes / intern_str / clone / drop / convert between IStr and IBytes) over 2 handle slots and two one-byte contents (possibly equal); NOT decided on this image (6.5 M variables, 52 M clauses: CBMC runs out of its 14 GB cap) — kept for larger machines" bounds="two contents of exactly 1 byte (symbolic, possibly equal, possibly not UTF-8), 3 operations, <= 2 live handles"
pool_history!(pool_history_3, 3);

fn pooled(v: u8) -> bool {
    POOL.with(|p| p.borrow().contains(&[v]))
}
fn pool_empty() -> bool {
    POOL.with(|p| p.borrow().is_empty())
}

//@harness name=pool_script_convert tier=quick timeout=1200 unwind=5 desc="scripted history with symbolic contents: intern_str(a), intern_bytes(b), cast_bytes, drop, cast_str, drop — after every step the reference count is live handles + 1, handles share a buffer exactly when a == b, a content is pooled exactly while a handle is alive, and the pool is empty at the end" bounds="a: every ASCII byte, b: every byte (possibly equal to a); one fixed operation sequence"
#[kani::proof]
#[kani::unwind(5)]
pub fn pool_script_convert() {
    let a: u8 = kani::any();
    let b: u8 = kani::any();
    kani::assume(a < 0x80);
    let same = a == b;
    let ab = [a];
    let x = intern_str(unsafe { core::str::from_utf8_unchecked(&ab) });
    assert!(Inner::strong_count(x.inner()) == 2 && pooled(a), "C18.pool.count strong_count equals live handles plus the pool's reference");
    let y = intern_bytes(&[b]);
    assert!(Inner::ptr_eq(x.inner(), y.inner()) == same, "C18.pool.canonical handles share a buffer exactly when their contents are equal");
    assert!(Inner::strong_count(x.inner()) == if same { 3 } else { 2 }, "C18.pool.count strong_count equals live handles plus the pool's reference");
    assert!(Inner::strong_count(y.inner()) == if same { 3 } else { 2 }, "C18.pool.count strong_count equals live handles plus the pool's reference");
    // IStr -> IBytes: the string handle is consumed, the bytes handle replaces it
    let z = x.cast_bytes();
    assert!(z.as_slice().len() == 1 && z.as_slice()[0] == a, "C18.pool.content live values keep their contents");
    assert!(Inner::strong_count(z.inner()) == if same { 3 } else { 2 }, "C18.pool.count a conversion neither leaks nor loses a reference");
    assert!(pooled(a) && pooled(b), "C18.pool.membership a content is pooled exactly while a handle to it is alive");
    drop(y);
    assert!(Inner::strong_count(z.inner()) == 2, "C18.pool.count strong_count equals live handles plus the pool's reference");
    assert!(pooled(b) == same, "C18.pool.membership a content whose last handle was dropped leaves the pool");
    // IBytes -> IStr: succeeds because the content is UTF-8
    let s = z.cast_str();
    assert!(s.is_some(), "C18.pool.cast_str UTF-8 contents always convert");
    let s = s.unwrap();
    assert!(Inner::strong_count(s.inner()) == 2, "C18.pool.count a conversion neither leaks nor loses a reference");
    drop(s);
    assert!(!pooled(a) && pool_empty(), "C18.pool.empty_after_release no entry stays pooled once every handle is dropped");
    kani::cover!(same, "both names denote one content reached");
    kani::cover!(!same && b >= 0x80, "second content not UTF-8 reached");
}

//@harness name=pool_script_invalid tier=quick timeout=1200 unwind=5 desc="scripted history: intern_bytes(a), clone, cast_str (fails exactly for a non-UTF-8 byte and then consumes the handle), drops: counts, membership and the empty pool at the end" bounds="a: every byte; one fixed operation sequence"
#[kani::proof]
#[kani::unwind(5)]
pub fn pool_script_invalid() {
    let a: u8 = kani::any();
    let x = intern_bytes(&[a]);
    let c = x.clone();
    assert!(Inner::strong_count(c.inner()) == 3, "C18.pool.count strong_count equals live handles plus the pool's reference");
    let r = x.cast_str();
    assert!(r.is_some() == (a < 0x80), "C18.pool.cast_str exactly the UTF-8 contents convert to a string");
    assert!(Inner::strong_count(c.inner()) == if a < 0x80 { 3 } else { 2 }, "C18.pool.count a conversion neither leaks nor loses a reference");
    drop(r);
    assert!(Inner::strong_count(c.inner()) == 2 && pooled(a), "C18.pool.count strong_count equals live handles plus the pool's reference");
    let d = intern_bytes(&[a]);
    assert!(Inner::ptr_eq(c.inner(), d.inner()), "C18.pool.canonical interning a pooled content again yields the same buffer");
    drop(c);
    assert!(pooled(a) && Inner::strong_count(d.inner()) == 2, "C18.pool.membership a content is pooled exactly while a handle to it is alive");
    drop(d);
    assert!(pool_empty(), "C18.pool.empty_after_release no entry stays pooled once every handle is dropped");
    kani::cover!(a >= 0x80, "non-UTF-8 content reached");
    kani::cover!(a < 0x80, "UTF-8 content reached");
}
