use crate::arr::{ArrValue, ArrayLike, ArrayMapper, MapFn, MapIdxFn, MappedArray, Val};
use crate::error::{Error, ErrorKind, Result};
use crate::harness_env::*;
use crate::val::{MemoizedClosureThunk, ThunkValue};
use std::sync::atomic::Ordering::Relaxed;

//@harness tier=quick timeout=600 desc="MemoizedClosureThunk: for every script (value or error, re-entrant or not) and 1..=3 forcings, the body runs exactly once, every forcing returns the first outcome, a re-entrant forcing is reported as infinite recursion" bounds="<= 3 calls of get() on one cell; outcome Ok(v)/Err; re-entrancy on/off"
#[kani::proof]
#[kani::unwind(6)]
pub fn memo_closure_once() {
    let fail: bool = kani::any();
    let reenter: bool = kani::any();
    let v: u8 = kani::any();
    let k: u8 = kani::any();
    kani::assume(k >= 1 && k <= 3);
    FAIL.store(fail, Relaxed);
    REENTER.store(reenter, Relaxed);
    let cell: MemoizedClosureThunk<u8, u8> = MemoizedClosureThunk::new(v, closure_body);
    CELL.store(&cell as *const _ as usize, Relaxed);
    let mut i = 0;
    while i < 3 {
        if i < k {
            let r = cell.get();
            if fail {
                assert!(r.is_err(), "C03.memo.same_outcome every use sees the first outcome");
            } else {
                assert!(matches!(r, Ok(x) if x == v), "C03.memo.same_outcome every use sees the first outcome");
            }
            assert!(CALLS.load(Relaxed) == 1, "C03.memo.once a shared binding is evaluated at most once");
        }
        i += 1;
    }
    assert!(REENTRANT_RESULT_OK.load(Relaxed), "C03.memo.reentrant a value that depends on itself is reported as infinite recursion");
    kani::cover!(k == 3 && fail, "three uses of a failing binding reached");
    kani::cover!(reenter && !fail, "self-dependent binding reached");
}

//@harness tier=quick timeout=900 desc="MappedArray (std.map / mapWithIndex): an element is computed at most once however often and in whatever order elements are read (also when its first evaluation failed); out-of-range reads never run the function; mapWithIndex passes the element's own index" bounds="array length 3, 3 reads at symbolic indexes 0..=4, outcome Ok/Err"
#[kani::proof]
#[kani::unwind(5)]
pub fn mapped_array_once() {
    let fail: bool = kani::any();
    let with_index: bool = kani::any();
    // the cache vector has a concrete length (a Vec of symbolic length exhausts CBMC's heap model)
    let n: usize = 3;
    FAIL.store(fail, Relaxed);
    // REENTER keeps its initial value `false`: the self-dependent case is mapped_array_reentrant
    let mapper = if with_index { ArrayMapper::WithIndex(MapIdxFn) } else { ArrayMapper::Plain(MapFn) };
    let arr = MappedArray::new(ArrValue { n }, mapper);
    assert!(CALLS.load(Relaxed) == 0, "C03.map.lazy building the mapped array evaluates nothing");
    let mut seen = [false; 3];
    let mut distinct: u32 = 0;
    let mut step = 0;
    while step < 3 {
        let i: usize = kani::any();
        kani::assume(i <= 4);
        let r = arr.get(i);
        if i >= n {
            assert!(matches!(r, Ok(None)), "C03.map.oob an out-of-range read is None");
        } else {
            if !seen[i] {
                seen[i] = true;
                distinct += 1;
                if with_index {
                    assert!(LAST_INDEX.load(Relaxed) == i as i32, "C03.map.index mapWithIndex passes the element's own index");
                }
            }
            if fail {
                assert!(r.is_err(), "C03.map.same_outcome every read of an element sees its first outcome");
            } else {
                assert!(matches!(r, Ok(Some(Val(x))) if x == (10 + i as i32) * 2), "C03.map.same_outcome every read of an element sees its first outcome");
            }
        }
        assert!(CALLS.load(Relaxed) == distinct, "C03.map.once the function runs once per element actually read, never for unread or out-of-range elements");
        step += 1;
    }
    assert!(arr.len() == n, "C03.map.len");
    kani::cover!(distinct == 1 && fail, "failing element read three times reached");
    kani::cover!(distinct == 3, "three different elements reached");
}

//@harness tier=quick timeout=900 desc="MappedArray: an element whose function reads the same element is reported as infinite recursion, and the function still runs once" bounds="array length 2, one read at a symbolic index"
#[kani::proof]
#[kani::unwind(5)]
pub fn mapped_array_reentrant() {
    let n: usize = 2;
    REENTER.store(true, Relaxed);
    let arr = MappedArray::new(ArrValue { n }, ArrayMapper::Plain(MapFn));
    CELL.store(&arr as *const _ as usize, Relaxed);
    let i: usize = kani::any();
    kani::assume(i < n);
    let r = arr.get(i);
    assert!(matches!(r, Ok(Some(Val(x))) if x == (10 + i as i32) * 2), "C03.map.reentrant.value the outer read still yields the value");
    assert!(REENTRANT_RESULT_OK.load(Relaxed), "C03.map.reentrant an element that depends on itself is reported as infinite recursion");
    assert!(CALLS.load(Relaxed) == 1, "C03.map.once the function runs once per element actually read, never for unread or out-of-range elements");
    kani::cover!(i == 1, "second element reached");
    kani::cover!(i == 0, "first element reached");
}
