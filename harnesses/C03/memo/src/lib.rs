//! C03 — the memo cells that implement "evaluated at most once": `MemoizedClosureThunk` (`val.rs`,
//! used for local bindings / arguments through the `Thunk!` macro) and the per-element cache of
//! `MappedArray` (`arr/spec.rs`, std.map / std.mapWithIndex / std.makeArray). Extracted verbatim.
#![allow(unused, dead_code, clippy::all, non_local_definitions)]
//@include ../../../../prelude/generic_error.in
mod prelude;

pub mod val {
    use crate::error::{Error, ErrorKind::InfiniteRecursionDetected, Result};
    use crate::prelude::Trace;
    use std::{cell::RefCell, mem::replace};
    //@extract crates/jrsonnet-evaluator/src/val.rs :: trait ThunkValue
    //@extract crates/jrsonnet-evaluator/src/val.rs :: enum MemoizedClusureThunkInner
    //@extract crates/jrsonnet-evaluator/src/val.rs :: struct MemoizedClosureThunk
    //@extract crates/jrsonnet-evaluator/src/val.rs :: impl MemoizedClosureThunk
    //@extract crates/jrsonnet-evaluator/src/val.rs :: impl ThunkValue for MemoizedClosureThunk
}

pub mod arr {
    use crate::error::{Error, ErrorKind::InfiniteRecursionDetected, Result};
    use crate::prelude::Trace;
    use std::{any::Any, cell::RefCell, fmt::Debug, mem::replace, rc::Rc as Cc};

    /// values are small numbers; errors are the generic stand-in
    #[derive(Debug, Clone, Copy, PartialEq)]
    pub struct Val(pub i32);
    #[derive(Debug, Clone)]
    pub struct Thunk<T>(pub T);
    impl Thunk<Val> {
        pub fn evaluated(v: Val) -> Self {
            Thunk(v)
        }
        pub fn errored(_e: Error) -> Self {
            Thunk(Val(-1))
        }
        pub fn new<X>(_x: X) -> Self {
            Thunk(Val(-2))
        }
    }
    /// the mapped-over array: n already evaluated elements (element i has value 10 + i)
    #[derive(Debug, Clone)]
    pub struct ArrValue {
        pub n: usize,
    }
    impl ArrValue {
        pub fn len(&self) -> usize {
            self.n
        }
        pub fn get(&self, i: usize) -> Result<Option<Val>> {
            Ok(if i < self.n { Some(Val(10 + i as i32)) } else { None })
        }
    }
    /// the user function of std.map: a counted native closure with a scripted outcome
    #[derive(Debug, Clone)]
    pub struct MapFn;
    impl MapFn {
        pub fn call(&self, v: Val) -> Result<Val> {
            crate::harness_env::map_body(None, v)
        }
    }
    #[derive(Debug, Clone)]
    pub struct MapIdxFn;
    impl MapIdxFn {
        pub fn call(&self, i: u32, v: Val) -> Result<Val> {
            crate::harness_env::map_body(Some(i), v)
        }
    }
    #[derive(Clone, Debug)]
    pub enum ArrayMapper {
        Plain(MapFn),
        WithIndex(MapIdxFn),
    }
    pub trait ThunkValue {
        type Output;
        fn get(&self) -> Result<Self::Output>;
    }
    //@extract crates/jrsonnet-evaluator/src/arr/spec.rs :: trait ArrayLike
    //@extract crates/jrsonnet-evaluator/src/arr/spec.rs :: enum ArrayThunk
    //@extract crates/jrsonnet-evaluator/src/arr/spec.rs :: struct MappedArray
    //@extract crates/jrsonnet-evaluator/src/arr/spec.rs :: impl MappedArray
    //@extract crates/jrsonnet-evaluator/src/arr/spec.rs :: impl ArrayLike for MappedArray
}
pub mod harness_env;
#[cfg(kani)]
mod harnesses;
