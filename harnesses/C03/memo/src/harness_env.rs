//! Scripted, counted closure bodies. The script (outcome, whether the body re-enters the cell it is
//! being evaluated for) is symbolic and fixed before the first call; the counters are what the
//! assertions read.
use crate::error::{Error, ErrorKind, Result};
use std::sync::atomic::{AtomicBool, AtomicI32, AtomicU32, AtomicUsize, Ordering::Relaxed};

pub static CALLS: AtomicU32 = AtomicU32::new(0);
pub static FAIL: AtomicBool = AtomicBool::new(false);
pub static REENTER: AtomicBool = AtomicBool::new(false);
pub static REENTRANT_RESULT_OK: AtomicBool = AtomicBool::new(true);
pub static CELL: AtomicUsize = AtomicUsize::new(0);
pub static LAST_INDEX: AtomicI32 = AtomicI32::new(-1);

/// body of the memoized closure (`Thunk!(move || ...)`)
pub fn closure_body(env: u8) -> Result<u8> {
    CALLS.fetch_add(1, Relaxed);
    if REENTER.load(Relaxed) {
        // a value that depends on itself: the body forces its own thunk
        let cell = CELL.load(Relaxed) as *const crate::val::MemoizedClosureThunk<u8, u8>;
        let r = crate::val::ThunkValue::get(unsafe { &*cell });
        if !matches!(r, Err(Error(ErrorKind::InfiniteRecursionDetected))) {
            REENTRANT_RESULT_OK.store(false, Relaxed);
        }
    }
    if FAIL.load(Relaxed) {
        Err(Error(ErrorKind::Other))
    } else {
        Ok(env)
    }
}

/// body of the function given to std.map / std.mapWithIndex
pub fn map_body(i: Option<u32>, v: crate::arr::Val) -> Result<crate::arr::Val> {
    CALLS.fetch_add(1, Relaxed);
    if let Some(i) = i {
        LAST_INDEX.store(i as i32, Relaxed);
    }
    if REENTER.load(Relaxed) {
        let arr = CELL.load(Relaxed) as *const crate::arr::MappedArray;
        let idx = (v.0 - 10) as usize;
        let r = crate::arr::ArrayLike::get(unsafe { &*arr }, idx);
        if !matches!(r, Err(Error(ErrorKind::InfiniteRecursionDetected))) {
            REENTRANT_RESULT_OK.store(false, Relaxed);
        }
    }
    if FAIL.load(Relaxed) {
        Err(Error(ErrorKind::Other))
    } else {
        Ok(crate::arr::Val(v.0 * 2))
    }
}
