//! C14 — key / escape predicates of the TOML, XML and YAML manifesters, extracted verbatim.
#![allow(unused, dead_code, clippy::all, non_local_definitions)]
//@include ../../../../prelude/generic_error.in
mod prelude;
pub mod toml {
    use std::ptr;
    pub type String = crate::prelude::fixed::ByteBuf<u8, 24>;
    pub type Vec<T> = crate::prelude::fixed::ByteBuf<T, 24>;
    //@extract crates/jrsonnet-evaluator/src/manifest.rs :: const BB
    //@extract crates/jrsonnet-evaluator/src/manifest.rs :: const TT
    //@extract crates/jrsonnet-evaluator/src/manifest.rs :: const NN
    //@extract crates/jrsonnet-evaluator/src/manifest.rs :: const FF
    //@extract crates/jrsonnet-evaluator/src/manifest.rs :: const RR
    //@extract crates/jrsonnet-evaluator/src/manifest.rs :: const QU
    //@extract crates/jrsonnet-evaluator/src/manifest.rs :: const BS
    //@extract crates/jrsonnet-evaluator/src/manifest.rs :: const UU
    //@extract crates/jrsonnet-evaluator/src/manifest.rs :: const __
    //@extract crates/jrsonnet-evaluator/src/manifest.rs :: static ESCAPE
    //@extract crates/jrsonnet-evaluator/src/manifest.rs :: fn escape_string_json_buf
    //@extract crates/jrsonnet-stdlib/src/manifest/toml.rs :: fn bare_allowed || s/^fn bare_allowed/pub fn bare_allowed/1
    //@extract crates/jrsonnet-stdlib/src/manifest/toml.rs :: fn escape_key_toml_buf || s/^fn escape_key_toml_buf/pub fn escape_key_toml_buf/1
}
pub mod xml {
    pub type String = crate::prelude::fixed::FixedString<24>;
    //@extract crates/jrsonnet-stdlib/src/manifest/xml.rs :: fn escape_string_xml_buf || s/^fn escape_string_xml_buf/pub fn escape_string_xml_buf/1
}
pub mod yaml {
    //@extract crates/jrsonnet-stdlib/src/manifest/yaml.rs :: fn bare_safe || s/^fn bare_safe/pub fn bare_safe/1
}
#[cfg(kani)]
mod harnesses;
