use crate::prelude::symstr::SymStr;

// ---- TOML keys ------------------------------------------------------------------------------------
//@harness tier=quick timeout=900 desc="TOML key: what is emitted is a valid bare key ([A-Za-z0-9_-]+, non-empty) equal to the key, or a quoted basic string" bounds="every well-formed UTF-8 key of <= 3 bytes"
#[kani::proof]
#[kani::unwind(26)]
pub fn toml_key() {
    use crate::toml::*;
    let s = SymStr::<3>::any_utf8();
    #[cfg(verif_playback)]
    {
        println!("REPLAY-INPUT: key={:?}", s.as_str());
        println!("REPLAY-JSONNET: std.manifestTomlEx({{ [{}]: 1 }}, \"\")", s.jsonnet());
        // an independent TOML reader is not available: the expected text for the only defective key
        if s.n == 0 { println!("REPLAY-EXPECT: value \"\\\"\\\" = 1\""); } else { println!("REPLAY-EXPECT: nocrash"); }
    }
    let mut buf = String::new();
    escape_key_toml_buf(s.as_str(), &mut buf);
    let ob = buf.as_bytes();
    assert!(ob.len() >= 1, "C14.toml.key_nonempty an empty bare key is not valid TOML (the empty key must be quoted)");
    if ob[0] != b'"' {
        assert!(ob.len() == s.n, "C14.toml.bare_is_key a bare key is the key itself");
        let mut i = 0;
        while i < 3 {
            if i < s.n {
                let c = ob[i];
                assert!(c == s.b[i] && (c.is_ascii_alphanumeric() || c == b'_' || c == b'-'), "C14.toml.bare_charset bare keys use only A-Za-z0-9_-");
            }
            i += 1;
        }
    } else {
        assert!(ob.len() >= 2 && ob[ob.len() - 1] == b'"', "C14.toml.quoted quoted keys are basic strings");
    }
    kani::cover!(s.n == 0, "empty key reached");
    kani::cover!(s.n == 3 && ob[0] != b'"', "three-character bare key reached");
    kani::cover!(s.n == 1 && ob[0] == b'"', "quoted one-character key reached");
}

// ---- XML text escaping ----------------------------------------------------------------------------
/// reference escaper, one byte at a time (straight-line code: a loop here would raise the harness-wide
/// unwinding bound and with it the cost of the loops inside the function under test)
fn ref_xml_push(out: &mut [u8; 24], n: &mut usize, c: u8) {
    let ent: &[u8] = match c {
        b'<' => b"&lt;",
        b'>' => b"&gt;",
        b'&' => b"&amp;",
        b'"' => b"&quot;",
        b'\'' => b"&apos;",
        _ => b"",
    };
    if ent.is_empty() {
        out[*n] = c;
        *n += 1;
    } else {
        macro_rules! put { ($($k:literal),*) => { $( if $k < ent.len() { out[*n + $k] = ent[$k]; } )* }; }
        put!(0, 1, 2, 3, 4, 5);
        *n += ent.len();
    }
}
fn xml_same(ob: &[u8], want: &[u8; 24], wn: usize) {
    macro_rules! same { ($($k:literal),*) => { $( if $k < wn && $k < ob.len() { assert!(ob[$k] == want[$k], "C14.xml.text every markup character becomes its entity, everything else is copied"); } )* }; }
    same!(0, 1, 2, 3, 4, 5, 6, 7, 8, 9, 10, 11, 12, 13, 14, 15, 16, 17);
}
macro_rules! xml_harness {
    ($name:ident, $len:literal) => {
        #[kani::proof]
        #[kani::unwind(9)]
        pub fn $name() {
            use crate::xml::*;
            // concrete length per harness, bytes symbolic
            let s = SymStr::<3>::any_utf8_len($len);
            #[cfg(verif_playback)]
            {
                println!("REPLAY-INPUT: text={:?}", s.as_str());
                println!("REPLAY-JSONNET: std.manifestXmlJsonml([\"a\", {}])", s.jsonnet());
                println!("REPLAY-EXPECT: nocrash");
            }
            let mut want = [0u8; 24];
            let mut wn = 0usize;
            if $len > 0 {
                ref_xml_push(&mut want, &mut wn, s.b[0]);
            }
            if $len > 1 {
                ref_xml_push(&mut want, &mut wn, s.b[1]);
            }
            if $len > 2 {
                ref_xml_push(&mut want, &mut wn, s.b[2]);
            }
            let mut out = String::new();
            escape_string_xml_buf(s.as_str(), &mut out);
            let ob = out.as_bytes();
            assert!(ob.len() == wn, "C14.xml.len every markup character becomes its entity, everything else is copied");
            xml_same(ob, &want, wn);
            kani::cover!(wn > $len, "markup character reached");
            kani::cover!(wn == $len, "text without markup reached");
        }
    };
}
//@harness name=xml_escape_1 tier=quick timeout=600 unwind=9 desc="XML escaping: the output is the input with each of < > & \" ' replaced by its predefined entity (hence no raw markup, and un-escaping gives the input back)" bounds="every well-formed UTF-8 string of exactly 1 byte"
xml_harness!(xml_escape_1, 1);
//@harness name=xml_escape_2 tier=quick timeout=900 unwind=9 desc="same" bounds="every well-formed UTF-8 string of exactly 2 bytes"
xml_harness!(xml_escape_2, 2);
//@harness name=xml_escape_3 tier=quick timeout=1200 unwind=9 desc="same" bounds="every well-formed UTF-8 string of exactly 3 bytes"
xml_harness!(xml_escape_3, 3);

// ---- YAML bare keys -------------------------------------------------------------------------------
const YN: usize = 4;
fn eq(b: &[u8; YN], n: usize, w: &[u8]) -> bool {
    if n != w.len() {
        return false;
    }
    let mut i = 0;
    while i < YN {
        if i < n && b[i] != w[i] {
            return false;
        }
        i += 1;
    }
    true
}
fn all_in(b: &[u8; YN], from: usize, n: usize, f: fn(u8) -> bool) -> bool {
    let mut i = 0;
    let mut ok = true;
    while i < YN {
        if i >= from && i < n && !f(b[i]) {
            ok = false;
        }
        i += 1;
    }
    ok
}
/// Would a YAML 1.1 core-schema reader resolve this plain scalar to something other than a string
/// (https://yaml.org/type/{bool,null,int,float}.html), or is it a structural token?  Only forms over
/// the alphabet bare_safe lets through ([A-Za-z0-9_./-]) and <= 4 bytes matter here.
fn yaml11_special(b: &[u8; YN], n: usize) -> bool {
    if n == 0 {
        return true;
    }
    const WORDS: [&[u8]; 24] = [
        b"y", b"Y", b"yes", b"Yes", b"YES", b"n", b"N", b"no", b"No", b"NO", b"true", b"True", b"TRUE", b"on", b"On", b"ON",
        b"off", b"Off", b"OFF", b"null", b"Null", b"NULL", b"-", b"---",
    ];
    // straight-line (a loop here would force the harness-wide unwinding bound up)
    macro_rules! any_word { ($($i:literal),*) => { $( if eq(b, n, WORDS[$i]) { return true; } )* }; }
    any_word!(0, 1, 2, 3, 4, 5, 6, 7, 8, 9, 10, 11, 12, 13, 14, 15, 16, 17, 18, 19, 20, 21, 22, 23);
    // "..." is a document-end marker only when followed by white space; as a key it is followed by ":"
    // and every YAML 1.1 reader takes it as a plain string (an earlier version of this list had it: false alarm)
    if eq(b, n, b".inf") || eq(b, n, b".Inf") || eq(b, n, b".INF") || eq(b, n, b".nan") || eq(b, n, b".NaN") || eq(b, n, b".NAN") {
        return true;
    }
    let s = if b[0] == b'-' { 1 } else { 0 };
    if s == n {
        return false;
    }
    let digit = |c: u8| c.is_ascii_digit();
    // int: 0b[01_]+ | 0[0-7_]+ | 0 | [1-9][0-9_]* | 0x[0-9a-fA-F_]+
    if n >= s + 3 && b[s] == b'0' && b[s + 1] == b'b' && all_in(b, s + 2, n, |c| c == b'0' || c == b'1' || c == b'_') {
        return true;
    }
    if n >= s + 3 && b[s] == b'0' && b[s + 1] == b'x' && all_in(b, s + 2, n, |c| c.is_ascii_hexdigit() || c == b'_') {
        return true;
    }
    if n >= s + 2 && b[s] == b'0' && all_in(b, s + 1, n, |c| (c >= b'0' && c <= b'7') || c == b'_') {
        return true;
    }
    if n == s + 1 && b[s] == b'0' {
        return true;
    }
    if b[s] >= b'1' && b[s] <= b'9' && all_in(b, s + 1, n, |c| c.is_ascii_digit() || c == b'_') {
        return true;
    }
    // float, as YAML 1.1 resolvers implement it (PyYAML, libyaml/go-yaml): [-+]?([0-9][0-9_]*)?\.[0-9_]*
    // with at least one digit; an exponent needs 3 more bytes ("e-1"), covered for the 4-byte form ".e-1"?
    // no: that has no digit before the exponent -> not a float. (The literal regex of yaml.org/type/float
    // would also accept "..", "-.9." — no resolver does; an earlier version of this reference followed it
    // and raised a false alarm on those keys.)
    let mut i = s;
    let mut digits = 0;
    if i < n && digit(b[i]) {
        while i < n && (digit(b[i]) || b[i] == b'_') {
            if digit(b[i]) {
                digits += 1;
            }
            i += 1;
        }
    }
    if i < n && b[i] == b'.' {
        let mut j = i + 1;
        while j < n && (digit(b[j]) || b[j] == b'_') {
            if digit(b[j]) {
                digits += 1;
            }
            j += 1;
        }
        if j == n && digits > 0 {
            return true;
        }
    }
    // -.inf
    if s == 1 && (eq(b, n, b"-.inf") || eq(b, n, b"-.Inf")) {
        return true;
    }
    false
}
macro_rules! yaml_harness {
    ($name:ident, $len:literal) => {
        #[kani::proof]
        #[kani::unwind(18)]
        pub fn $name() {
            use crate::yaml::*;
            // concrete length per harness; bytes symbolic
            let s = SymStr::<YN>::any_ascii_len($len);
            #[cfg(verif_playback)]
            {
                println!("REPLAY-INPUT: key={:?} special={}", s.as_str(), yaml11_special(&s.b, s.n));
                println!("REPLAY-JSONNET: std.manifestYamlDoc({{ [{}]: 1 }}, quote_keys=false)", s.jsonnet());
                // a key that a YAML 1.1 reader resolves to a non-string must come out quoted
                let mut q = std::string::String::from("\"");
                q.push_str(s.as_str());
                q.push_str("\": 1");
                if yaml11_special(&s.b, s.n) {
                    println!("REPLAY-EXPECT: value {:?}", q);
                } else {
                    println!("REPLAY-EXPECT: nocrash");
                }
            }
            let safe = bare_safe(s.as_str());
            if safe {
                assert!(s.n > 0, "C14.yaml.nonempty an empty key must be quoted");
                assert!(all_in(&s.b, 0, s.n, |c| c.is_ascii_alphanumeric() || c == b'_' || c == b'.' || c == b'/' || c == b'-'), "C14.yaml.charset unquoted keys use only [A-Za-z0-9_./-]");
                assert!(!yaml11_special(&s.b, s.n), "C14.yaml.not_special an unquoted key must not be resolved as bool/null/int/float/structure by a YAML 1.1 reader");
            }
            kani::cover!(safe || $len == 0, "bare key reached");
            kani::cover!(!safe && yaml11_special(&s.b, s.n), "special key quoted reached");
        }
    };
}
//@harness name=yaml_bare_safe_0 tier=quick timeout=600 unwind=18 desc="YAML bare_safe is sound (see yaml_bare_safe_3): the empty key" bounds="the empty key"
yaml_harness!(yaml_bare_safe_0, 0);
//@harness name=yaml_bare_safe_1 tier=quick timeout=600 unwind=18 desc="same, every 1-byte ASCII key" bounds="every ASCII key of exactly 1 byte"
yaml_harness!(yaml_bare_safe_1, 1);
//@harness name=yaml_bare_safe_2 tier=quick timeout=900 unwind=18 desc="same, every 2-byte ASCII key" bounds="every ASCII key of exactly 2 bytes"
yaml_harness!(yaml_bare_safe_2, 2);
//@harness name=yaml_bare_safe_3 tier=quick timeout=900 unwind=18 desc="YAML bare_safe is sound: a key it leaves unquoted is non-empty, uses only [A-Za-z0-9_./-] and is not re-read by a YAML 1.1 core-schema resolver as bool/null/int/float or a structural token" bounds="every ASCII key of exactly 3 bytes"
yaml_harness!(yaml_bare_safe_3, 3);
//@harness name=yaml_bare_safe_4 tier=quick timeout=1200 unwind=18 desc="same, every 4-byte ASCII key" bounds="every ASCII key of exactly 4 bytes"
yaml_harness!(yaml_bare_safe_4, 4);
