//! C05 — JSON string escaping (`manifest.rs::escape_string_json_buf` and its ESCAPE table),
//! extracted verbatim; the output buffer is a fixed-capacity byte buffer that plays both the
//! `String` and the `Vec<u8>` role (the function casts one to the other).
#![allow(unused, dead_code, clippy::all, non_local_definitions)]
//@include ../../../../prelude/generic_error.in
mod prelude;
pub mod json {
    use std::ptr;
    pub type String = crate::prelude::fixed::ByteBuf<u8, 24>;
    pub type Vec<T> = crate::prelude::fixed::ByteBuf<T, 24>;
    //@extract crates/jrsonnet-evaluator/src/manifest.rs :: const BB
    //@extract crates/jrsonnet-evaluator/src/manifest.rs :: const TT
    //@extract crates/jrsonnet-evaluator/src/manifest.rs :: const NN
    //@extract crates/jrsonnet-evaluator/src/manifest.rs :: const FF
    //@extract crates/jrsonnet-evaluator/src/manifest.rs :: const RR
    //@extract crates/jrsonnet-evaluator/src/manifest.rs :: const QU
    //@extract crates/jrsonnet-evaluator/src/manifest.rs :: const BS
    //@extract crates/jrsonnet-evaluator/src/manifest.rs :: const UU
    //@extract crates/jrsonnet-evaluator/src/manifest.rs :: const __
    //@extract crates/jrsonnet-evaluator/src/manifest.rs :: static ESCAPE
    //@extract crates/jrsonnet-evaluator/src/manifest.rs :: fn escape_string_json_buf
}
#[cfg(kani)]
mod harnesses;
