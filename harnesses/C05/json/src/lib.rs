//! C05 — JSON string escaping (`manifest.rs::escape_string_json_buf` and its ESCAPE table),
//! extracted verbatim; the output buffer is a fixed-capacity byte buffer that plays both the
//! `String` and the `Vec<u8>` role (the function casts one to the other).
#![allow(unused, dead_code, clippy::all, non_local_definitions)]
//@include ../../../../prelude/generic_error.in
mod prelude;
pub mod json {
    use std::ptr;
    pub type String = crate::prelude::fixed::ByteBuf<u8, 24>;
    pub type Vec<T> = crate::prelude::fixed::ByteBuf<T, 24>;
    //@extract crates/jrsonnet-evaluator/src/manifest.rs :: const BB
    //@extract crates/jrsonnet-evaluator/src/manifest.rs :: const TT
    //@extract crates/jrsonnet-evaluator/src/manifest.rs :: const NN
    //@extract crates/jrsonnet-evaluator/src/manifest.rs :: const FF
    //@extract crates/jrsonnet-evaluator/src/manifest.rs :: const RR
    //@extract crates/jrsonnet-evaluator/src/manifest.rs :: const QU
    //@extract crates/jrsonnet-evaluator/src/manifest.rs :: const BS
    //@extract crates/jrsonnet-evaluator/src/manifest.rs :: const UU
    //@extract crates/jrsonnet-evaluator/src/manifest.rs :: const __
    //@extract crates/jrsonnet-evaluator/src/manifest.rs :: static ESCAPE
    //@extract crates/jrsonnet-evaluator/src/manifest.rs :: fn escape_string_json_buf
}
/// The `Val::Str` arm of `manifest_json_ex_buf` (the string truncation that `std.trace` asks for
/// through `JsonFormat::debug()`), extracted as a block and wrapped in a function that binds the
/// three names the arm uses.
pub mod trunc {
    pub struct JsonFormat {
        pub debug_truncate_strings: Option<usize>,
    }
    #[derive(Clone)]
    pub struct StrValue<'a>(pub &'a str);
    impl<'a> StrValue<'a> {
        pub fn into_flat(self) -> &'a str {
            self.0
        }
    }
    /// What the arm hands to `escape_string_json_buf`: the whole string, or `format!("{start}..{end}")`.
    /// The pieces are recorded by address and length instead of being copied and escaped (escaping is
    /// the subject of `escape_roundtrip_*`); copies of symbolic length made this harness run out of memory.
    #[derive(Clone, Copy)]
    pub struct Piece {
        pub ptr: *const u8,
        pub len: usize,
    }
    pub enum Emitted {
        Nothing,
        Whole(Piece),
        Joined(Piece, Piece),
    }
    pub type String = Emitted;
    pub trait Text {
        fn emitted(&self) -> Emitted;
    }
    impl Text for &str {
        fn emitted(&self) -> Emitted {
            Emitted::Whole(Piece { ptr: self.as_ptr(), len: self.len() })
        }
    }
    impl Text for Emitted {
        fn emitted(&self) -> Emitted {
            match self {
                Emitted::Joined(a, b) => Emitted::Joined(*a, *b),
                Emitted::Whole(a) => Emitted::Whole(*a),
                Emitted::Nothing => Emitted::Nothing,
            }
        }
    }
    fn join(start: &str, end: &str) -> Emitted {
        Emitted::Joined(Piece { ptr: start.as_ptr(), len: start.len() }, Piece { ptr: end.as_ptr(), len: end.len() })
    }
    fn escape_string_json_buf<T: Text>(t: &T, buf: &mut String) {
        *buf = t.emitted();
    }
    pub fn str_arm(s: &StrValue, options: &JsonFormat, buf: &mut String)
    //@extract crates/jrsonnet-evaluator/src/manifest.rs :: block fn manifest_json_ex_buf @ Val::Str\(s\) => || s/format!\("\{start\}\.\.\{end\}"\)/join(start, end)/1
}
#[cfg(kani)]
mod harnesses;
