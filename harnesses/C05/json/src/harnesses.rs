//! Round trip through an independent RFC 8259 string-literal reader.
use crate::json::*;
use crate::prelude::symstr::SymStr;

const OUT: usize = 24;

/// Reads one JSON string literal occupying the whole input; returns the decoded bytes.
/// Accepts exactly RFC 8259 section 7: unescaped = %x20-21 / %x23-5B / %x5D-10FFFF (as UTF-8 bytes),
/// escapes \" \\ \/ \b \f \n \r \t \uXXXX (only code points < 0x80 are needed for what the writer may emit
/// for bytes; \u escapes >= 0x80 are decoded to UTF-8 as well).
fn read_json_string(b: &[u8], n: usize, out: &mut [u8; OUT]) -> Option<usize> {
    if n < 2 || b[0] != b'"' || b[n - 1] != b'"' {
        return None;
    }
    let mut o = 0;
    let mut i = 1;
    let mut guard = 0;
    while i < n - 1 && guard < OUT {
        guard += 1;
        let c = b[i];
        if c < 0x20 || c == b'"' {
            return None;
        }
        if c != b'\\' {
            out[o] = c;
            o += 1;
            i += 1;
            continue;
        }
        if i + 1 >= n - 1 {
            return None;
        }
        let e = b[i + 1];
        let (dec, adv) = match e {
            b'"' => (b'"', 2),
            b'\\' => (b'\\', 2),
            b'/' => (b'/', 2),
            b'b' => (8, 2),
            b'f' => (12, 2),
            b'n' => (10, 2),
            b'r' => (13, 2),
            b't' => (9, 2),
            b'u' => {
                if i + 5 >= n - 1 {
                    return None;
                }
                let mut v: u32 = 0;
                let mut k = 0;
                while k < 4 {
                    let h = b[i + 2 + k];
                    let d = match h {
                        b'0'..=b'9' => h - b'0',
                        b'a'..=b'f' => h - b'a' + 10,
                        b'A'..=b'F' => h - b'A' + 10,
                        _ => return None,
                    };
                    v = v * 16 + d as u32;
                    k += 1;
                }
                if v >= 0x80 {
                    // the writer never needs this for byte-wise escaping; treat as a different string
                    return None;
                }
                (v as u8, 6)
            }
            _ => return None,
        };
        out[o] = dec;
        o += 1;
        i += adv;
    }
    if i != n - 1 {
        return None;
    }
    Some(o)
}

macro_rules! escape_roundtrip {
    ($name:ident, $n:literal, $unwind:literal) => {
        #[kani::proof]
        #[kani::unwind($unwind)]
        pub fn $name() {
            let s = SymStr::<$n>::any_utf8();
            let mut buf = String::new();
            #[cfg(verif_playback)]
            {
                println!("REPLAY-INPUT: {:?} bytes={:?}", s.as_str(), s.bytes());
                println!("REPLAY-JSONNET: std.parseJson(std.manifestJsonMinified({})) == {}", s.jsonnet(), s.jsonnet());
                println!("REPLAY-EXPECT: value true");
                println!("REPLAY-JSONNET: std.parseJson(std.toString([{}]))[0] == {}", s.jsonnet(), s.jsonnet());
                println!("REPLAY-EXPECT: value true");
            }
            escape_string_json_buf(s.as_str(), &mut buf);
            let ob = buf.as_bytes();
            // every byte that RFC 8259 forbids unescaped is escaped
            let mut i = 1;
            while i < OUT {
                if i + 1 < ob.len() {
                    assert!(ob[i] >= 0x20, "C05.escape.controls a control character is emitted raw");
                }
                i += 1;
            }
            let mut dec = [0u8; OUT];
            let r = read_json_string(&buf.b, buf.n, &mut dec);
            assert!(r.is_some(), "C05.escape.wellformed output is not a well-formed JSON string literal");
            let dn = r.unwrap();
            assert!(dn == s.n, "C05.escape.roundtrip_len decoded length differs");
            let mut i = 0;
            while i < $n {
                if i < s.n {
                    assert!(dec[i] == s.b[i], "C05.escape.roundtrip decoded string differs");
                }
                i += 1;
            }
            kani::cover!(s.n == $n && s.b[0] < 0x20 && s.b[$n - 1] == b'"', "control character and quote reached");
            kani::cover!(s.n >= 2 && s.b[0] >= 0xC2, "multi-byte scalar reached");
            kani::cover!(s.n >= 1 && s.b[0] == b'\\', "backslash reached");
            kani::cover!(s.n >= 1 && s.b[0] == 0x7f, "DEL reached");
        }
    };
}
//@harness name=escape_roundtrip_3 tier=quick timeout=900 unwind=26 desc="escape_string_json_buf: output is a well-formed RFC 8259 string literal that decodes to the input, no raw control characters" bounds="every well-formed UTF-8 string of <= 3 bytes"
escape_roundtrip!(escape_roundtrip_3, 3, 26);
//@harness name=escape_roundtrip_2 tier=quick timeout=600 unwind=26 desc="same, <= 2 bytes (kept separately so that a slow 3-byte run still leaves a decided bound)" bounds="every well-formed UTF-8 string of <= 2 bytes"
escape_roundtrip!(escape_roundtrip_2, 2, 26);
//@harness name=escape_roundtrip_4 tier=thorough optional=1 timeout=3600 unwind=26 desc="same, <= 4 bytes (one astral scalar)" bounds="every well-formed UTF-8 string of <= 4 bytes"
escape_roundtrip!(escape_roundtrip_4, 4, 26);

/// `std.trace` output of strings: `manifest_json_ex_buf`'s string arm with a truncation limit.
macro_rules! trace_truncate {
    ($name:ident, $n:expr) => {
        #[kani::proof]
        #[kani::unwind(8)]
        pub fn $name() {
            use crate::trunc::*;
            let s = SymStr::<$n>::any_utf8_len($n);
            let t: usize = kani::any();
            kani::assume(t <= $n + 1);
            let some: bool = kani::any();
            let options = JsonFormat { debug_truncate_strings: if some { Some(t) } else { None } };
            let mut buf = Emitted::Nothing;
            #[cfg(verif_playback)]
            {
                println!("REPLAY-INPUT: {:?} bytes={:?} truncate={:?}", s.as_str(), s.bytes(), options.debug_truncate_strings);
                // the CLI reaches this arm only with the limit 256 (std.trace of a non-string value):
                // pad so that byte 128 from the front / from the back falls where byte t/2 fell here
                if let Some(t) = options.debug_truncate_strings {
                    println!(
                        "REPLAY-JSONNET: std.trace([std.repeat('a', {}) + {} + std.repeat('a', 300)], 1)",
                        128 - t / 2,
                        s.jsonnet()
                    );
                    println!("REPLAY-EXPECT: nocrash");
                    println!(
                        "REPLAY-JSONNET: std.trace([std.repeat('a', 300) + {} + std.repeat('a', {})], 1)",
                        s.jsonnet(),
                        128 - t / 2
                    );
                    println!("REPLAY-EXPECT: nocrash");
                }
            }
            let sv = StrValue(s.as_str());
            str_arm(&sv, &options, &mut buf);
            let base = s.as_str().as_ptr();
            match buf {
                Emitted::Nothing => assert!(false, "C05.trace.emits the string arm emitted nothing"),
                Emitted::Whole(p) => {
                    assert!(p.ptr == base && p.len == $n, "C05.trace.whole the untruncated output is not the whole string");
                    assert!(!some || t >= $n, "C05.trace.limit a string longer than the limit is printed whole");
                }
                Emitted::Joined(a, b) => {
                    assert!(some && t < $n, "C05.trace.untruncated a string within the limit is truncated");
                    assert!(a.ptr == base && a.len <= t / 2, "C05.trace.prefix the first piece is not a prefix of at most half the limit");
                    assert!(
                        b.len <= t / 2 && b.ptr == unsafe { base.add($n - b.len) },
                        "C05.trace.suffix the second piece is not a suffix of at most half the limit"
                    );
                }
            }
            kani::cover!(some && t < $n && s.b[0] >= 0xC2, "truncation of a multi-byte string reached");
            kani::cover!(some && t < $n && s.b[$n - 1] >= 0x80, "truncation with a multi-byte tail reached");
        }
    };
}
//@harness name=trace_truncate_4 tier=quick timeout=900 unwind=8 desc="Val::Str arm of manifest_json_ex_buf with debug_truncate_strings: no panic; emits the whole string when within the limit, else a prefix and a suffix of at most half the limit each" bounds="every well-formed UTF-8 string of exactly 4 bytes, limit None or 0..=5"
trace_truncate!(trace_truncate_4, 4);
//@harness name=trace_truncate_6 tier=quick timeout=900 unwind=8 desc="same, 6 bytes" bounds="every well-formed UTF-8 string of exactly 6 bytes, limit None or 0..=7"
trace_truncate!(trace_truncate_6, 6);
