//! Environment prelude: hand-written stand-ins for the parts of jrsonnet that Kani cannot execute
//! here (gcmodule `Cc`/`Trace`, the `Error` type with its interned strings and stack trace).
//! Every harness crate gets a copy under `src/prelude/`. See DESIGN.md §1 (E2).
#![allow(unused, dead_code)]

/// gcmodule marker traits: collector behaviour is never asserted.
pub trait Trace {}
impl<T: ?Sized> Trace for T {}
pub trait Acyclic {}
impl<T: ?Sized> Acyclic for T {}

/// generic error type; a harness crate chooses it (`pub mod error { pub use crate::prelude::err::*; }`)
/// or defines its own `crate::error` when the extracted code constructs specific `ErrorKind` payloads.
pub mod err;
pub mod num;
pub mod symstr;
pub mod fixed;
