//! Fixed-capacity stand-ins for `Vec<T>` and `String` *as result accumulators*: CBMC's model of a
//! growing heap buffer (realloc + copy with a symbolic size) runs out of memory even for three
//! elements (measured: `std.findSubstr` on a 3-byte text needed > 15 GB), so a harness crate may
//! shadow the names `Vec` / `String` in the module that holds the extracted function. Same API
//! subset (`new`, `push`, `len`, indexing, `FromIterator<char>`, `as_bytes`, `Deref<Target = str>`);
//! pushing beyond the capacity is a harness error (assertion), never silently dropped.
#![allow(unused, dead_code)]
use core::ops::{Deref, Index};

#[derive(Debug, Clone)]
pub struct FixedVec<T, const N: usize> {
    pub items: [Option<T>; N],
    pub len: usize,
}
impl<T, const N: usize> FixedVec<T, N> {
    pub fn new() -> Self {
        FixedVec { items: [const { None }; N], len: 0 }
    }
    pub fn with_capacity(_c: usize) -> Self {
        Self::new()
    }
    pub fn push(&mut self, v: T) {
        assert!(self.len < N, "harness: FixedVec capacity exceeded");
        self.items[self.len] = Some(v);
        self.len += 1;
    }
    pub fn len(&self) -> usize {
        self.len
    }
    pub fn is_empty(&self) -> bool {
        self.len == 0
    }
    pub fn get(&self, i: usize) -> Option<&T> {
        if i < self.len {
            self.items[i].as_ref()
        } else {
            None
        }
    }
}
impl<T, const N: usize> Index<usize> for FixedVec<T, N> {
    type Output = T;
    fn index(&self, i: usize) -> &T {
        assert!(i < self.len, "index out of bounds");
        self.items[i].as_ref().unwrap()
    }
}

#[derive(Debug, Clone, Copy, PartialEq, Eq)]
pub struct FixedString<const N: usize> {
    pub b: [u8; N],
    pub n: usize,
}
impl<const N: usize> FixedString<N> {
    pub fn new() -> Self {
        FixedString { b: [0; N], n: 0 }
    }
    pub fn push(&mut self, c: char) {
        let mut t = [0u8; 4];
        let l = c.encode_utf8(&mut t).len();
        assert!(self.n + l <= N, "harness: FixedString capacity exceeded");
        let mut i = 0;
        while i < 4 {
            if i < l {
                self.b[self.n + i] = t[i];
            }
            i += 1;
        }
        self.n += l;
    }
    pub fn push_str(&mut self, s: &str) {
        let sb = s.as_bytes();
        assert!(self.n + sb.len() <= N, "harness: FixedString capacity exceeded");
        let mut i = 0;
        while i < sb.len() {
            self.b[self.n + i] = sb[i];
            i += 1;
        }
        self.n += sb.len();
    }
    pub fn as_bytes(&self) -> &[u8] {
        &self.b[..self.n]
    }
    pub fn as_str(&self) -> &str {
        unsafe { core::str::from_utf8_unchecked(&self.b[..self.n]) }
    }
    pub fn len(&self) -> usize {
        self.n
    }
    pub fn is_empty(&self) -> bool {
        self.n == 0
    }
}
impl<const N: usize> Deref for FixedString<N> {
    type Target = str;
    fn deref(&self) -> &str {
        self.as_str()
    }
}
impl<const N: usize> FromIterator<char> for FixedString<N> {
    fn from_iter<I: IntoIterator<Item = char>>(it: I) -> Self {
        let mut s = Self::new();
        for c in it {
            s.push(c);
        }
        s
    }
}
impl<const N: usize> From<&str> for FixedString<N> {
    fn from(s: &str) -> Self {
        let mut o = Self::new();
        o.push_str(s);
        o
    }
}

// ---- by-value iteration (for `for x in vec`, `.into_iter().rev()`) -------------------------------
pub struct FixedIntoIter<T, const N: usize> {
    v: FixedVec<T, N>,
    front: usize,
    back: usize,
}
impl<T, const N: usize> Iterator for FixedIntoIter<T, N> {
    type Item = T;
    fn next(&mut self) -> Option<T> {
        if self.front < self.back {
            let x = self.v.items[self.front].take();
            self.front += 1;
            x
        } else {
            None
        }
    }
}
impl<T, const N: usize> DoubleEndedIterator for FixedIntoIter<T, N> {
    fn next_back(&mut self) -> Option<T> {
        if self.front < self.back {
            self.back -= 1;
            self.v.items[self.back].take()
        } else {
            None
        }
    }
}
impl<T, const N: usize> IntoIterator for FixedVec<T, N> {
    type Item = T;
    type IntoIter = FixedIntoIter<T, N>;
    fn into_iter(self) -> Self::IntoIter {
        let back = self.len;
        FixedIntoIter { v: self, front: 0, back }
    }
}
impl<const N: usize> FixedString<N> {
    pub fn reserve(&mut self, _n: usize) {}
}
impl<const N: usize> core::ops::Index<core::ops::RangeTo<usize>> for FixedString<N> {
    type Output = str;
    fn index(&self, r: core::ops::RangeTo<usize>) -> &str {
        &self.as_str()[r]
    }
}

// ---- more of the Vec API (sorting, draining, collecting) -------------------------------------------
impl<T, const N: usize> FromIterator<T> for FixedVec<T, N> {
    fn from_iter<I: IntoIterator<Item = T>>(it: I) -> Self {
        let mut v = Self::new();
        for x in it {
            v.push(x);
        }
        v
    }
}
impl<T, const N: usize> FixedVec<T, N> {
    pub fn last(&self) -> Option<&T> {
        if self.len == 0 {
            None
        } else {
            self.items[self.len - 1].as_ref()
        }
    }
    pub fn pop(&mut self) -> Option<T> {
        if self.len == 0 {
            None
        } else {
            self.len -= 1;
            self.items[self.len].take()
        }
    }
    pub fn reverse(&mut self) {
        let mut i = 0;
        while i < N / 2 + 1 {
            if i < self.len / 2 {
                self.items.swap(i, self.len - 1 - i);
            }
            i += 1;
        }
    }
    /// stable insertion sort
    pub fn sort_by_key<K: Ord, F: FnMut(&T) -> K>(&mut self, mut f: F) {
        let mut i = 1;
        while i < N {
            if i < self.len {
                let mut j = i;
                while j > 0 && f(self.items[j - 1].as_ref().unwrap()) > f(self.items[j].as_ref().unwrap()) {
                    self.items.swap(j - 1, j);
                    j -= 1;
                }
            }
            i += 1;
        }
    }
    /// `drain(..)`: yields every element and leaves the vector empty
    pub fn drain(&mut self, _r: core::ops::RangeFull) -> FixedIntoIter<T, N> {
        let taken = core::mem::replace(self, Self::new());
        taken.into_iter()
    }
    pub fn iter(&self) -> impl Iterator<Item = &T> + '_ {
        self.items.iter().take(self.len).map(|x| x.as_ref().unwrap())
    }
}

/// Byte buffer with one layout for both `String` and `Vec<u8>` roles (manifest.rs casts
/// `&mut String` to `&mut Vec<u8>`).
#[derive(Debug, Clone, Copy)]
pub struct ByteBuf<T, const N: usize> {
    pub b: [T; N],
    pub n: usize,
}
impl<const N: usize> ByteBuf<u8, N> {
    pub fn new() -> Self {
        ByteBuf { b: [0; N], n: 0 }
    }
    pub fn reserve(&mut self, _n: usize) {}
    pub fn push(&mut self, c: u8) {
        assert!(self.n < N, "harness: ByteBuf capacity exceeded");
        self.b[self.n] = c;
        self.n += 1;
    }
    pub fn extend_from_slice(&mut self, s: &[u8]) {
        assert!(self.n + s.len() <= N, "harness: ByteBuf capacity exceeded");
        let mut i = 0;
        while i < s.len() {
            self.b[self.n + i] = s[i];
            i += 1;
        }
        self.n += s.len();
    }
    pub fn as_bytes(&self) -> &[u8] {
        &self.b[..self.n]
    }
    pub fn len(&self) -> usize {
        self.n
    }
}

impl<T, const N: usize> FixedVec<T, N> {
    pub fn insert(&mut self, at: usize, v: T) {
        assert!(self.len < N, "harness: FixedVec capacity exceeded");
        assert!(at <= self.len, "insertion index out of bounds");
        let mut i = N - 1;
        while i > 0 {
            if i <= self.len && i > at {
                self.items.swap(i, i - 1);
            }
            i -= 1;
        }
        self.items[at] = Some(v);
        self.len += 1;
    }
    pub fn sort_unstable(&mut self)
    where
        T: Ord,
    {
        let mut i = 1;
        while i < N {
            if i < self.len {
                let mut j = i;
                while j > 0 && self.items[j - 1].as_ref().unwrap() > self.items[j].as_ref().unwrap() {
                    self.items.swap(j - 1, j);
                    j -= 1;
                }
            }
            i += 1;
        }
    }
}

impl<const N: usize> ByteBuf<u8, N> {
    pub fn push_str(&mut self, s: &str) {
        self.extend_from_slice(s.as_bytes());
    }
}

impl<T, const N: usize> FixedVec<T, N> {
    pub fn extend<I: IntoIterator<Item = T>>(&mut self, it: I) {
        for x in it {
            self.push(x);
        }
    }
}
impl<T: Clone, const N: usize> FixedVec<T, N> {
    pub fn from_slice(s: &[T]) -> Self {
        let mut v = Self::new();
        let mut i = 0;
        while i < s.len() {
            v.push(s[i].clone());
            i += 1;
        }
        v
    }
}

/// A `FixedVec` behind one fixed-size heap allocation: moving it copies a pointer instead of N slots
/// (array views embed their element storage in enum variants that are moved at every composition step).
#[derive(Debug, Clone)]
pub struct BoxVec<T, const N: usize>(pub Box<FixedVec<T, N>>);
impl<T, const N: usize> BoxVec<T, N> {
    pub fn new() -> Self {
        BoxVec(Box::new(FixedVec::new()))
    }
    pub fn with_capacity(_c: usize) -> Self {
        Self::new()
    }
}
impl<T: Clone, const N: usize> BoxVec<T, N> {
    pub fn from_slice(s: &[T]) -> Self {
        BoxVec(Box::new(FixedVec::from_slice(s)))
    }
}
impl<T, const N: usize> core::ops::Deref for BoxVec<T, N> {
    type Target = FixedVec<T, N>;
    fn deref(&self) -> &FixedVec<T, N> {
        &self.0
    }
}
impl<T, const N: usize> core::ops::DerefMut for BoxVec<T, N> {
    fn deref_mut(&mut self) -> &mut FixedVec<T, N> {
        &mut self.0
    }
}

impl<const N: usize> FixedString<N> {
    pub fn with_capacity(_c: usize) -> Self {
        Self::new()
    }
}
impl<T, const N: usize> FixedVec<T, N> {
    /// capacity is fixed: reserving is a no-op
    pub fn reserve(&mut self, _n: usize) {}
}
