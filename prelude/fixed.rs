//! Fixed-capacity stand-ins for `Vec<T>` and `String` *as result accumulators*: CBMC's model of a
//! growing heap buffer (realloc + copy with a symbolic size) runs out of memory even for three
//! elements (measured: `std.findSubstr` on a 3-byte text needed > 15 GB), so a harness crate may
//! shadow the names `Vec` / `String` in the module that holds the extracted function. Same API
//! subset (`new`, `push`, `len`, indexing, `FromIterator<char>`, `as_bytes`, `Deref<Target = str>`);
//! pushing beyond the capacity is a harness error (assertion), never silently dropped.
#![allow(unused, dead_code)]
use core::ops::{Deref, Index};

#[derive(Debug, Clone)]
pub struct FixedVec<T, const N: usize> {
    pub items: [Option<T>; N],
    pub len: usize,
}
impl<T, const N: usize> FixedVec<T, N> {
    pub fn new() -> Self {
        FixedVec { items: [const { None }; N], len: 0 }
    }
    pub fn with_capacity(_c: usize) -> Self {
        Self::new()
    }
    pub fn push(&mut self, v: T) {
        assert!(self.len < N, "harness: FixedVec capacity exceeded");
        self.items[self.len] = Some(v);
        self.len += 1;
    }
    pub fn len(&self) -> usize {
        self.len
    }
    pub fn is_empty(&self) -> bool {
        self.len == 0
    }
    pub fn get(&self, i: usize) -> Option<&T> {
        if i < self.len {
            self.items[i].as_ref()
        } else {
            None
        }
    }
}
impl<T, const N: usize> Index<usize> for FixedVec<T, N> {
    type Output = T;
    fn index(&self, i: usize) -> &T {
        assert!(i < self.len, "index out of bounds");
        self.items[i].as_ref().unwrap()
    }
}

#[derive(Debug, Clone, Copy, PartialEq, Eq)]
pub struct FixedString<const N: usize> {
    pub b: [u8; N],
    pub n: usize,
}
impl<const N: usize> FixedString<N> {
    pub fn new() -> Self {
        FixedString { b: [0; N], n: 0 }
    }
    pub fn push(&mut self, c: char) {
        let mut t = [0u8; 4];
        let l = c.encode_utf8(&mut t).len();
        assert!(self.n + l <= N, "harness: FixedString capacity exceeded");
        let mut i = 0;
        while i < 4 {
            if i < l {
                self.b[self.n + i] = t[i];
            }
            i += 1;
        }
        self.n += l;
    }
    pub fn push_str(&mut self, s: &str) {
        let sb = s.as_bytes();
        assert!(self.n + sb.len() <= N, "harness: FixedString capacity exceeded");
        let mut i = 0;
        while i < sb.len() {
            self.b[self.n + i] = sb[i];
            i += 1;
        }
        self.n += sb.len();
    }
    pub fn as_bytes(&self) -> &[u8] {
        &self.b[..self.n]
    }
    pub fn as_str(&self) -> &str {
        unsafe { core::str::from_utf8_unchecked(&self.b[..self.n]) }
    }
    pub fn len(&self) -> usize {
        self.n
    }
    pub fn is_empty(&self) -> bool {
        self.n == 0
    }
}
impl<const N: usize> Deref for FixedString<N> {
    type Target = str;
    fn deref(&self) -> &str {
        self.as_str()
    }
}
impl<const N: usize> FromIterator<char> for FixedString<N> {
    fn from_iter<I: IntoIterator<Item = char>>(it: I) -> Self {
        let mut s = Self::new();
        for c in it {
            s.push(c);
        }
        s
    }
}
impl<const N: usize> From<&str> for FixedString<N> {
    fn from(s: &str) -> Self {
        let mut o = Self::new();
        o.push_str(s);
        o
    }
}

// ---- by-value iteration (for `for x in vec`, `.into_iter().rev()`) -------------------------------
pub struct FixedIntoIter<T, const N: usize> {
    v: FixedVec<T, N>,
    front: usize,
    back: usize,
}
impl<T, const N: usize> Iterator for FixedIntoIter<T, N> {
    type Item = T;
    fn next(&mut self) -> Option<T> {
        if self.front < self.back {
            let x = self.v.items[self.front].take();
            self.front += 1;
            x
        } else {
            None
        }
    }
}
impl<T, const N: usize> DoubleEndedIterator for FixedIntoIter<T, N> {
    fn next_back(&mut self) -> Option<T> {
        if self.front < self.back {
            self.back -= 1;
            self.v.items[self.back].take()
        } else {
            None
        }
    }
}
impl<T, const N: usize> IntoIterator for FixedVec<T, N> {
    type Item = T;
    type IntoIter = FixedIntoIter<T, N>;
    fn into_iter(self) -> Self::IntoIter {
        let back = self.len;
        FixedIntoIter { v: self, front: 0, back }
    }
}
impl<const N: usize> FixedString<N> {
    pub fn reserve(&mut self, _n: usize) {}
}
impl<const N: usize> core::ops::Index<core::ops::RangeTo<usize>> for FixedString<N> {
    type Output = str;
    fn index(&self, r: core::ops::RangeTo<usize>) -> &str {
        &self.as_str()[r]
    }
}
