//! Symbolic strings for harnesses: `[u8; N]` plus a symbolic length, constrained by a hand-written
//! well-formedness predicate and turned into `&str` with `from_utf8_unchecked` (std's validator on
//! the *input* side dominates solver time, DESIGN §1). The predicate is an assumption of every
//! harness that uses it.
#![allow(unused, dead_code)]

#[derive(Clone, Copy)]
pub struct SymStr<const N: usize> {
    pub b: [u8; N],
    pub n: usize,
}

/// Exactly the well-formed UTF-8 byte sequences (RFC 3629: no overlongs, no surrogates, <= U+10FFFF).
pub fn is_utf8(b: &[u8], n: usize) -> bool {
    let mut i = 0;
    // remaining continuation bytes, and the allowed range of the next continuation byte
    let mut need: u8 = 0;
    let mut lo: u8 = 0x80;
    let mut hi: u8 = 0xBF;
    while i < b.len() {
        if i < n {
            let c = b[i];
            if need == 0 {
                if c < 0x80 {
                } else if c >= 0xC2 && c <= 0xDF {
                    need = 1;
                    lo = 0x80;
                    hi = 0xBF;
                } else if c == 0xE0 {
                    need = 2;
                    lo = 0xA0;
                    hi = 0xBF;
                } else if (c >= 0xE1 && c <= 0xEC) || c == 0xEE || c == 0xEF {
                    need = 2;
                    lo = 0x80;
                    hi = 0xBF;
                } else if c == 0xED {
                    need = 2;
                    lo = 0x80;
                    hi = 0x9F;
                } else if c == 0xF0 {
                    need = 3;
                    lo = 0x90;
                    hi = 0xBF;
                } else if c >= 0xF1 && c <= 0xF3 {
                    need = 3;
                    lo = 0x80;
                    hi = 0xBF;
                } else if c == 0xF4 {
                    need = 3;
                    lo = 0x80;
                    hi = 0x8F;
                } else {
                    return false;
                }
            } else {
                if c < lo || c > hi {
                    return false;
                }
                need -= 1;
                lo = 0x80;
                hi = 0xBF;
            }
        }
        i += 1;
    }
    need == 0
}

impl<const N: usize> SymStr<N> {
    #[cfg(kani)]
    pub fn any_bytes() -> Self {
        let b: [u8; N] = kani::any();
        let n: usize = kani::any();
        kani::assume(n <= N);
        SymStr { b, n }
    }
    /// every ASCII string of length <= N
    #[cfg(kani)]
    pub fn any_ascii() -> Self {
        let s = Self::any_bytes();
        let mut i = 0;
        while i < N {
            kani::assume(s.b[i] < 0x80);
            i += 1;
        }
        s
    }
    /// every ASCII string of exactly `n` bytes: `n` is a *concrete* length (an `assume(s.n == k)` on a
    /// symbolic length does not help symbolic execution: loops over the string stay symbolic)
    #[cfg(kani)]
    pub fn any_ascii_len(n: usize) -> Self {
        let mut s = Self::any_ascii();
        s.n = n;
        s
    }
    /// every well-formed UTF-8 string of exactly `n` bytes (concrete length)
    #[cfg(kani)]
    pub fn any_utf8_len(n: usize) -> Self {
        let b: [u8; N] = kani::any();
        kani::assume(is_utf8(&b, n));
        SymStr { b, n }
    }
    /// every well-formed UTF-8 string of <= N bytes
    #[cfg(kani)]
    pub fn any_utf8() -> Self {
        let s = Self::any_bytes();
        kani::assume(is_utf8(&s.b, s.n));
        s
    }
    pub fn bytes(&self) -> &[u8] {
        &self.b[..self.n]
    }
    pub fn as_str(&self) -> &str {
        // SAFETY: constructors assume `is_utf8`
        unsafe { core::str::from_utf8_unchecked(&self.b[..self.n]) }
    }
    /// for stand-ins that hold `&'static str`; the value outlives every use inside one harness
    pub fn as_static(&self) -> &'static str {
        unsafe { core::mem::transmute::<&str, &'static str>(self.as_str()) }
    }
    /// Jsonnet string literal denoting these bytes (playback only)
    #[cfg(verif_playback)]
    pub fn jsonnet(&self) -> String {
        let mut o = String::from("\"");
        for c in self.as_str().chars() {
            match c {
                '"' => o.push_str("\\\""),
                '\\' => o.push_str("\\\\"),
                c if (c as u32) < 0x20 || c as u32 == 0x7f => o.push_str(&std::format!("\\u{:04x}", c as u32)),
                c => o.push(c),
            }
        }
        o.push('"');
        o
    }
}
