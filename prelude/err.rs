//! Generic error stand-in: the `ErrorKind` variants harnesses assert on; no message formatting,
//! no stack trace, no interned strings.
#![allow(unused, dead_code)]
/// The `ErrorKind` variants that harnesses assert on; everything else is `Other`.
#[derive(Debug, Clone, PartialEq, Eq)]
pub enum ErrorKind {
    InfiniteRecursionDetected,
    DivisionByZero,
    StackOverflow,
    FractionalIndex,
    ArrayBoundsError(isize, usize),
    StringBoundsError(usize, usize),
    RuntimeError(&'static str),
    TypeError,
    NoSuchField,
    Other,
}
pub use ErrorKind::*;

#[derive(Debug, Clone, PartialEq, Eq)]
pub struct Error(pub ErrorKind);
impl Error {
    pub fn new(k: ErrorKind) -> Self {
        Error(k)
    }
    pub fn error(&self) -> &ErrorKind {
        &self.0
    }
}
impl From<ErrorKind> for Error {
    fn from(k: ErrorKind) -> Self {
        Error(k)
    }
}
pub type Result<T, E = Error> = core::result::Result<T, E>;

