//! The real `NumValue` of crates/jrsonnet-evaluator/src/val.rs, extracted verbatim.
#![allow(unused, dead_code)]
use std::{cmp::Ordering, fmt::{self, Debug, Display}, ops::Deref};
use crate::error::{Error, Result};

//@extract crates/jrsonnet-evaluator/src/typed/conversions.rs :: const MAX_SAFE_INTEGER
//@extract crates/jrsonnet-evaluator/src/typed/conversions.rs :: const MIN_SAFE_INTEGER

//@extract crates/jrsonnet-evaluator/src/val.rs :: struct NumValue
//@extract crates/jrsonnet-evaluator/src/val.rs :: impl NumValue
//@extract crates/jrsonnet-evaluator/src/val.rs :: impl PartialEq for NumValue
//@extract crates/jrsonnet-evaluator/src/val.rs :: impl Eq for NumValue
//@extract crates/jrsonnet-evaluator/src/val.rs :: impl Ord for NumValue
//@extract crates/jrsonnet-evaluator/src/val.rs :: impl PartialOrd for NumValue
//@extract crates/jrsonnet-evaluator/src/val.rs :: impl Debug for NumValue
//@extract crates/jrsonnet-evaluator/src/val.rs :: impl Deref for NumValue
//@extract crates/jrsonnet-evaluator/src/val.rs :: macro impl_num
//@extract crates/jrsonnet-evaluator/src/val.rs :: line impl_num!
//@extract crates/jrsonnet-evaluator/src/val.rs :: enum ConvertNumValueError
//@extract crates/jrsonnet-evaluator/src/val.rs :: macro impl_try_num
//@extract crates/jrsonnet-evaluator/src/val.rs :: line impl_try_num!
//@extract crates/jrsonnet-evaluator/src/val.rs :: impl TryFrom<f64> for NumValue
