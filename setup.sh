#!/bin/sh
# Run once after a fresh restore, offline. Nothing persistent is built: every check regenerates its
# harness crates from /repo's current working tree into a scratch directory and removes it afterwards.
# This only verifies that the tools the checks need are present.
set -e
cd "$(dirname "$0")"
command -v cargo >/dev/null
cargo kani --version >/dev/null
command -v z3 >/dev/null
command -v cvc5 >/dev/null
command -v z3-new >/dev/null
python3 -c 'import json,re,subprocess' 
chmod +x check tools/*.py 2>/dev/null || true
echo "verif setup ok"
