#!/usr/bin/env python3
"""Extract named Rust items verbatim from a repo source file and expand harness templates.

Template directives (one per line, inside any .rs file under a harness directory):

    //@extract <relpath> :: <item spec> [ || s/<regex>/<repl>/[N] ]...
    //@repo                         -> replaced by the absolute repo root (inside string literals: @REPO@)

Item specs:
    fn NAME                         free function (top level or nested in `mod`)
    fn TYPE::NAME                   method NAME inside `impl TYPE` (inherent impl, any generics)
    fn TRAIT for TYPE::NAME         method NAME inside `impl TRAIT for TYPE`
    struct NAME | enum NAME | trait NAME | const NAME | static NAME | type NAME | macro NAME
    impl TYPE                       the (first) inherent impl block of TYPE
    impl TRAIT for TYPE             trait impl block
    body fn ...                     only the statements between the outer braces of that fn

Default edits applied to every extracted text (recorded in the evidence):
    * `Trace`, `Acyclic`, `Typed`, `IntoUntyped`, `Error` (thiserror) removed from #[derive(...)]
    * `#[trace(...)]`, `#[builtin...]`, `#[error(...)]`, `#[typed(...)]` attribute lines removed
A per-directive `s/re/repl/` must match at least once (or exactly N times when a count is given),
otherwise the generator fails: a silently non-matching edit would change what is verified.
"""
import hashlib
import os
import re
import sys


class ExtractError(Exception):
    pass


def mask(text):
    """Return text with comments, string and char literals blanked (same length)."""
    out = list(text)
    i, n = 0, len(text)

    def blank(a, b):
        for k in range(a, b):
            if out[k] != '\n':
                out[k] = ' '

    while i < n:
        c = text[i]
        if text.startswith('//', i):
            j = text.find('\n', i)
            j = n if j < 0 else j
            blank(i, j)
            i = j
        elif text.startswith('/*', i):
            depth, j = 1, i + 2
            while j < n and depth:
                if text.startswith('/*', j):
                    depth += 1
                    j += 2
                elif text.startswith('*/', j):
                    depth -= 1
                    j += 2
                else:
                    j += 1
            blank(i, j)
            i = j
        elif c == '"' or (c in 'rb' and re.match(r'(br|rb|r|b)#*"', text[i:i + 8]) and not (i > 0 and (text[i - 1].isalnum() or text[i - 1] == '_'))):
            m = re.match(r'(br|rb|r|b)?(#*)"', text[i:i + 12])
            prefix, hashes = m.group(1) or '', m.group(2)
            j = i + m.end()
            if 'r' in prefix:
                end = '"' + hashes
                k = text.find(end, j)
                k = n if k < 0 else k + len(end)
            else:
                k = j
                while k < n and text[k] != '"':
                    k += 2 if text[k] == '\\' else 1
                k += 1
            blank(i + m.end() - 1 + 1, k - 1 - len(hashes) if 'r' in prefix else k - 1)
            i = k
        elif c == "'":
            # char literal or lifetime
            m = re.match(r"'(\\.[^']*|[^'\\])'", text[i:i + 12])
            if m:
                blank(i + 1, i + m.end() - 1)
                i += m.end()
            else:
                i += 1
        else:
            i += 1
    return ''.join(out)


class RustSource:
    def __init__(self, path):
        self.path = path
        with open(path, encoding='utf-8') as f:
            self.text = f.read()
        self.masked = mask(self.text)

    # -- helpers ---------------------------------------------------------------------------
    def _match_brace(self, open_idx):
        depth = 0
        m = self.masked
        for k in range(open_idx, len(m)):
            ch = m[k]
            if ch == '{':
                depth += 1
            elif ch == '}':
                depth -= 1
                if depth == 0:
                    return k
        raise ExtractError(f'unbalanced braces in {self.path} from offset {open_idx}')

    def _item_end(self, start):
        """End offset (exclusive) of the item whose header starts at `start`."""
        m = self.masked
        depth_paren = 0
        k = start
        while k < len(m):
            ch = m[k]
            if ch in '([':
                depth_paren += 1
            elif ch in ')]':
                depth_paren -= 1
            elif ch == '{' and depth_paren == 0:
                end = self._match_brace(k) + 1
                return end
            elif ch == ';' and depth_paren == 0:
                return k + 1
            k += 1
        raise ExtractError('item end not found')

    def _with_attrs(self, start):
        """Extend `start` backwards over attribute and doc-comment lines."""
        lines_before = self.text[:start].split('\n')
        # current line prefix must be whitespace only
        pos = start - len(lines_before[-1])
        idx = len(lines_before) - 2
        while idx >= 0:
            ln = lines_before[idx].strip()
            if ln.startswith('#[') or ln.startswith('///') or ln.startswith('#!['):
                pos -= len(lines_before[idx]) + 1
                idx -= 1
            else:
                break
        return pos

    def _find_header(self, regex, lo=0, hi=None):
        hi = len(self.masked) if hi is None else hi
        r = re.compile(regex, re.M)
        m = r.search(self.masked, lo, hi)
        if not m:
            return None
        return m.start(1) if m.groups() else m.start()

    VIS = r'(?:pub(?:\([a-z: ]+\))?\s+)?'

    def _impl_range(self, trait, ty):
        gen = r'(?:<[^{;]*?>)?'
        if trait:
            rx = rf'^[ \t]*((?:unsafe\s+)?impl{gen}\s+{re.escape(trait)}(?:<[^{{;]*?>)?\s+for\s+{re.escape(ty)}\b[^;{{]*\{{)'
        else:
            rx = rf'^[ \t]*(impl{gen}\s+{re.escape(ty)}\b(?:<[^{{;]*?>)?\s*(?:where[^{{]*)?\{{)'
        pos = 0
        while True:
            r = re.compile(rx, re.M | re.S)
            m = r.search(self.masked, pos)
            if not m:
                return None
            hdr = m.group(1)
            if not trait and re.search(r'\bfor\b', hdr):
                pos = m.end()
                continue
            start = m.start(1)
            end = self._item_end(start)
            return start, end

    def find(self, spec):
        """Return (start, end) of the item described by spec."""
        spec = spec.strip()
        V = self.VIS
        m = re.match(r'^fn\s+(.+)::(\w+)$', spec)
        if m:
            owner, name = m.group(1).strip(), m.group(2)
            mm = re.match(r'^(.+?)\s+for\s+(.+)$', owner)
            trait, ty = (mm.group(1), mm.group(2)) if mm else (None, owner)
            # search all impl blocks of that shape for the method
            pos = 0
            gen = r'(?:<[^{;]*?>)?'
            if trait:
                rx = rf'^[ \t]*((?:unsafe\s+)?impl{gen}\s+{re.escape(trait)}(?:<[^{{;]*?>)?\s+for\s+{re.escape(ty)}\b[^;{{]*\{{)'
            else:
                rx = rf'^[ \t]*(impl{gen}\s+{re.escape(ty)}\b[^;{{]*\{{)'
            for im in re.finditer(rx, self.masked, re.M | re.S):
                if not trait and re.search(r'\bfor\b', im.group(1)):
                    continue
                lo = im.start(1)
                hi = self._item_end(lo)
                h = self._find_header(rf'^[ \t]*({V}(?:const\s+)?(?:unsafe\s+)?fn\s+{name}\b)', lo, hi)
                if h is not None:
                    return self._with_attrs(h), self._item_end(h)
            raise ExtractError(f'{spec!r} not found in {self.path}')
        m = re.match(r'^line\s+(.+)$', spec)
        if m:
            mm = re.search(r'^[^\n]*' + m.group(1) + r'[^\n]*$', self.text, re.M)
            if not mm:
                raise ExtractError(f'{spec!r} not found in {self.path}')
            return mm.start(), mm.end()
        m = re.match(r'^impl\s+(.+?)\s+for\s+(.+)$', spec)
        if m:
            r = self._impl_range(m.group(1).strip(), m.group(2).strip())
            if not r:
                raise ExtractError(f'{spec!r} not found in {self.path}')
            return self._with_attrs(r[0]), r[1]
        m = re.match(r'^impl\s+(.+)$', spec)
        if m:
            r = self._impl_range(None, m.group(1).strip())
            if not r:
                raise ExtractError(f'{spec!r} not found in {self.path}')
            return self._with_attrs(r[0]), r[1]
        m = re.match(r'^(fn|struct|enum|trait|const|static|type|macro|mod)\s+(\w+)$', spec)
        if m:
            kind, name = m.groups()
            if kind == 'fn':
                rx = rf'^[ \t]*({V}(?:const\s+)?(?:unsafe\s+)?fn\s+{name}\b)'
            elif kind == 'macro':
                rx = rf'^[ \t]*(macro_rules!\s+{name}\b)'
            elif kind == 'static':
                rx = rf'^[ \t]*({V}static\s+(?:mut\s+)?{name}\b)'
            else:
                rx = rf'^[ \t]*({V}{kind}\s+{name}\b)'
            h = self._find_header(rx)
            if h is None:
                raise ExtractError(f'{spec!r} not found in {self.path}')
            return self._with_attrs(h), self._item_end(h)
        raise ExtractError(f'bad item spec {spec!r}')

    def extract_block(self, spec):
        """`block <item spec> @ <regex>`: the balanced `{...}` block that follows the first match of <regex>
        inside the item (e.g. one match arm of a function), braces included."""
        m = re.match(r'^block\s+(.+?)\s+@\s+(.+)$', spec)
        item, rx = m.group(1), m.group(2)
        s0, e0 = self.find(item)
        mm = re.search(rx, self.masked[s0:e0])
        if not mm:
            # the pattern may contain string literals, which are blanked in the masked text
            mm = re.search(rx, self.text[s0:e0])
        if not mm:
            raise ExtractError(f'{rx!r} not found inside {item!r} in {self.path}')
        k = s0 + mm.end()
        while k < e0 and self.masked[k] != '{':
            k += 1
        if k >= e0:
            raise ExtractError(f'no block after {rx!r} in {item!r}')
        end = self._match_brace(k) + 1
        return self.text[k:end]

    def extract(self, spec):
        if spec.startswith('block '):
            return self.extract_block(spec)
        body_only = False
        if spec.startswith('body '):
            body_only = True
            spec = spec[5:]
        s, e = self.find(spec)
        txt = self.text[s:e]
        if body_only:
            ms = self.masked[s:e]
            o = ms.index('{')
            txt = txt[o + 1:len(txt) - 1]
        return txt


DERIVE_DROP = {'Trace', 'Acyclic', 'Typed', 'IntoUntyped', 'Error', 'FromUntyped'}
ATTR_DROP = re.compile(r'^[ \t]*#\[(trace|builtin|error|typed|from|source)\b.*?\]\s*?\n', re.M)
ATTR_DROP_INLINE = re.compile(r'#\[(?:(?:trace|typed|from|source)\([^\]]*\)|default(?:\([^\]]*\))?)\]\s*')


def default_edits(txt):
    def fix_derive(m):
        items = [x.strip() for x in m.group(1).split(',') if x.strip()]
        items = [x for x in items if x not in DERIVE_DROP]
        return '#[derive(' + ', '.join(items) + ')]' if items else ''
    txt = re.sub(r'#\[derive\(([^)]*)\)\]', fix_derive, txt)
    txt = re.sub(r'^[ \t]*#\[builtin(?:\([^\]]*\))?\]\s*?\n', '', txt, flags=re.M)
    txt = ATTR_DROP.sub('', txt)
    txt = ATTR_DROP_INLINE.sub('', txt)
    return txt


def parse_subst(s):
    s = s.strip()
    if not s.startswith('s'):
        raise ExtractError(f'bad edit {s!r}')
    d = s[1]
    parts = s[2:].split(d)
    if len(parts) < 2:
        raise ExtractError(f'bad edit {s!r}')
    pat, rep = parts[0], parts[1]
    cnt = parts[2].strip() if len(parts) > 2 else ''
    return pat, rep, (int(cnt) if cnt.isdigit() else None)


DIRECTIVE = re.compile(r'^[ \t]*//@extract\s+(\S+)\s*::\s*(.*)$', re.M)


INCLUDE = re.compile(r"^[ \t]*//@include[ \t]+(\S+)((?:[ \t]+\w+=\S+)*)[ \t]*$", re.M)


def expand(template_text, repo, record, base_dir=None, depth=0):
    """Expand //@include and //@extract directives. `record` collects dicts describing each extraction."""
    cache = {}
    if base_dir is not None and depth < 5:
        def inc(m):
            path = os.path.join(base_dir, m.group(1))
            if not os.path.exists(path):
                raise ExtractError(f'include {path} does not exist')
            t = open(path, encoding='utf-8').read()
            for kv in m.group(2).split():
                k, v = kv.split('=', 1)
                t = t.replace('@' + k + '@', v)
            return expand(t, repo, record, os.path.dirname(path), depth + 1)
        template_text = INCLUDE.sub(inc, template_text)

    def repl(m):
        rel, rest = m.group(1), m.group(2)
        parts = [p.strip() for p in rest.split('||')]
        spec, edits = parts[0], parts[1:]
        path = os.path.join(repo, rel)
        if path not in cache:
            if not os.path.exists(path):
                raise ExtractError(f'{path} does not exist')
            cache[path] = RustSource(path)
        raw = cache[path].extract(spec)
        txt = default_edits(raw)
        applied = []
        for e in edits:
            pat, rep, cnt = parse_subst(e)
            txt, k = re.subn(pat, rep, txt, flags=re.M | re.S)
            if k == 0 or (cnt is not None and k != cnt):
                raise ExtractError(f'edit {e!r} on {rel} :: {spec} matched {k} times')
            applied.append(e)
        record.append({
            'file': rel,
            'item': spec,
            'sha1': hashlib.sha1(raw.encode()).hexdigest(),
            'lines': raw.count('\n') + 1,
            'edits': applied,
        })
        return f'// ---- extracted from {rel} :: {spec} ----\n{txt}\n// ---- end ----'

    out = DIRECTIVE.sub(repl, template_text)
    out = out.replace('@REPO@', repo)
    return out


if __name__ == '__main__':
    # debugging aid: extract.py <file> "<spec>"
    src = RustSource(sys.argv[1])
    print(default_edits(src.extract(sys.argv[2])))
