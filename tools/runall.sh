#!/bin/bash
# Runs every registered quick check once (two at a time) and prints their exit codes.
cd /verif
ids=$(python3 -c "import json;print(' '.join(c['property_id'] for c in json.load(open('MANIFEST.json'))['checks']))")
run() { VERIF_JOBS=8 ./check $1 > /var/tmp/runall_$1.log 2>&1; echo "$1 exit=$? $(grep -a -E 'held on|VIOLATION' /var/tmp/runall_$1.log | head -1 | cut -c1-120)"; }
export -f run
echo $ids | tr ' ' '\n' | xargs -P 2 -I{} bash -c 'run {}'
