#!/bin/bash
# Confirms every seeded change in a scratch worktree: applies, builds, runs the unedited suite, runs the
# demonstration with and without the change. Writes /verif/seeded/<id>/confirm.txt
set -u
W=/tmp/confirm_wt
[ -d $W ] || git -C /repo worktree add -q --detach $W HEAD
cd $W && git checkout -q --detach "$(git -C /repo rev-parse HEAD)" && git checkout -- . 
cargo build --offline -p jrsonnet >/dev/null 2>&1
cp target/debug/jrsonnet /tmp/jrsonnet.base
for d in /verif/seeded/*/; do
  id=$(basename $d)
  [ -f $d/patch.diff ] || continue
  [ -n "${1:-}" ] && [[ "$id" != $1 ]] && continue   # $1 may be a glob, e.g. "R4_*"
  out=$d/confirm.txt
  {
    echo "seed $id  base commit $(git rev-parse --short HEAD)"
    git checkout -- . 
    if ! git apply $d/patch.diff; then echo "PATCH DOES NOT APPLY"; continue; fi
    if cargo build --offline -p jrsonnet >/tmp/confirm_build.log 2>&1; then echo "build: ok"; else echo "build: FAILED"; tail -5 /tmp/confirm_build.log; fi
    echo "suite: $(cargo nextest run --workspace --no-fail-fast --offline --test-threads 8 2>&1 | grep -E 'Summary|^\s+FAIL' | sort -u | tr '\n' ' ')"
    if [ -f $d/demo.jsonnet ]; then
      args=""; [ -f $d/demo.args ] && args="$(cat $d/demo.args)"
      echo "demo without the change: $(/tmp/jrsonnet.base $args $d/demo.jsonnet 2>&1 | tr -d '\n' | cut -c1-400)"
      echo "demo with the change:    $(target/debug/jrsonnet $args $d/demo.jsonnet 2>&1 | tr -d '\n' | cut -c1-400)"
    fi
    git checkout -- .
  } > $out 2>&1
  cat $out
done
