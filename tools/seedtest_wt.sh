#!/bin/bash
# usage: tools/seedtest_wt.sh <seed-id> <PROP> [check args...]
# Like seedtest.sh, but applies the seeded change in a scratch worktree of /repo (VERIF_REPO points the check
# at it), so that several seeds can be tried at once and /repo itself stays untouched. The worktree and its
# build output are removed afterwards.
set -u
id="$1"; prop="$2"; shift 2
wt=/tmp/seedwt_$id
git -C /repo worktree remove --force $wt 2>/dev/null
git -C /repo worktree add -q --detach $wt HEAD || exit 3
git -C $wt apply /verif/seeded/$id/patch.diff || { echo "patch does not apply"; git -C /repo worktree remove --force $wt; exit 3; }
cd /verif
VERIF_REPO=$wt VERIF_PARTIAL=1 VERIF_SCRATCH=/var/tmp/seedrun-$id ./check "$prop" "$@" > /var/tmp/seedrun-$id.log 2>&1
rc=$?
git -C /repo worktree remove --force $wt
grep -vE "^aborting" /var/tmp/seedrun-$id.log | grep -E "^\[|VIOLATION|KNOWN|finding" | cut -c1-260
echo "exit=$rc log=/var/tmp/seedrun-$id.log"
