#!/usr/bin/env python3
"""Driver for the solver-based checks (see /verif/DESIGN.md).

For one property it
  1. regenerates the harness crates from /repo's *current working tree* (tools/extract.py),
  2. runs every harness of the requested tier with Kani/CBMC (one process per harness, in parallel)
     and every SMT query set (tools/tables.py, z3 + cvc5),
  3. parses the per-check verdicts, reachability covers and unwinding assertions,
  4. replays every failed check natively (cargo kani playback, dev profile) and, where the harness
     prints a Jsonnet program for it, on a `jrsonnet` binary built from /repo (dev + release),
  5. consults /verif/known_findings.json,
  6. writes /verif/evidence/<id>.json and prints VIOLATION / KNOWN-FINDING lines.

Exit status: 0 held (or only listed known findings), 1 violation, 2 infrastructure / undecided.
"""
import concurrent.futures as cf
import hashlib
import json
import os
import re
import resource
import shutil
import signal
import subprocess
import sys
import time

VERIF = os.path.dirname(os.path.dirname(os.path.abspath(__file__)))
sys.path.insert(0, os.path.join(VERIF, 'tools'))
import extract  # noqa: E402

REPO = os.environ.get('VERIF_REPO', '/repo')
ENV = dict(os.environ, CARGO_NET_OFFLINE='true', CARGO_TERM_COLOR='never')
ENV.pop('RUSTFLAGS', None)
NCPU = os.cpu_count() or 4
MEM_LIMIT = int(os.environ.get('VERIF_MEM_GB', '14')) << 30


def log(*a):
    print(*a, file=sys.stderr, flush=True)


class Infra(Exception):
    pass


# ------------------------------------------------------------------------------------------------
# crate generation
# ------------------------------------------------------------------------------------------------

HARNESS_RE = re.compile(
    r'//@harness([^\n]*)\n((?:\s*#\[[^\n]*\]\s*\n)*)\s*(?:(?:pub\s+)?fn\s+(\w+)\s*\()?', re.M)


def parse_kv(s):
    out = {}
    for m in re.finditer(r'(\w+)=("([^"]*)"|\S+)', s):
        out[m.group(1)] = m.group(3) if m.group(3) is not None else m.group(2)
    return out


def generate_crate(prop, crate_name, scratch):
    """Expand /verif/harnesses/<prop>/<crate_name>/ into scratch; return (dir, extractions, harnesses)."""
    src_dir = os.path.join(VERIF, 'harnesses', prop, crate_name)
    if not os.path.isdir(src_dir):
        raise Infra(f'no harness crate {src_dir}')
    dst = os.path.join(scratch, f'{prop}_{crate_name}')
    if os.path.exists(dst):
        shutil.rmtree(dst)
    os.makedirs(os.path.join(dst, 'src'))
    record = []
    harnesses = []
    files = []
    for root, _dirs, fnames in os.walk(src_dir):
        for fn in fnames:
            files.append(os.path.join(root, fn))
    prelude_dir = os.path.join(VERIF, 'prelude')
    prelude_files = []
    for fn in sorted(os.listdir(prelude_dir)):
        if fn.endswith('.rs'):
            prelude_files.append(os.path.join(prelude_dir, fn))
    for path in files + prelude_files:
        if path in prelude_files:
            rel = os.path.join('src', 'prelude', os.path.basename(path))
        else:
            rel = os.path.relpath(path, src_dir)
        with open(path, encoding='utf-8') as f:
            txt = f.read()
        if path.endswith('.in'):
            continue
        if path.endswith('.rs'):
            try:
                txt = extract.expand(txt, REPO, record, os.path.dirname(path))
            except extract.ExtractError as e:
                raise Infra(f'extraction failed for {path}: {e}')
            for m in HARNESS_RE.finditer(txt):
                meta = parse_kv(m.group(1))
                attrs = m.group(2)
                hname = meta.get('name') or m.group(3)
                if not hname or ('kani::proof' not in attrs and 'name' not in meta):
                    continue
                meta['name'] = hname
                modp = os.path.relpath(path, os.path.join(src_dir, 'src'))[:-3].replace(os.sep, '::')
                modp = re.sub(r'(^|::)(lib|mod)$', '', modp)
                meta['qual'] = (modp + '::' if modp else '') + hname
                meta['crate'] = crate_name
                um = re.search(r'kani::unwind\((\d+)\)', attrs)
                meta['unwind'] = int(um.group(1)) if um else (int(meta['unwind']) if meta.get('unwind') else None)
                harnesses.append(meta)
        out = os.path.join(dst, rel)
        os.makedirs(os.path.dirname(out), exist_ok=True)
        with open(out, 'w', encoding='utf-8') as f:
            f.write(txt)
    cargo = os.path.join(dst, 'Cargo.toml')
    if not os.path.exists(cargo):
        with open(cargo, 'w') as f:
            f.write(f'[package]\nname = "{prop.lower()}_{crate_name}"\nversion = "0.1.0"\nedition = "2021"\n'
                    '[workspace]\n[lints.rust]\nunexpected_cfgs = { level = "allow" }\n'
                    '[profile.dev]\noverflow-checks = true\ndebug-assertions = true\n')
    # lock file once, so that parallel runs do not race on it
    subprocess.run(['cargo', 'generate-lockfile', '--offline'], cwd=dst, env=ENV,
                   stdout=subprocess.DEVNULL, stderr=subprocess.DEVNULL)
    return dst, record, harnesses


# ------------------------------------------------------------------------------------------------
# Kani
# ------------------------------------------------------------------------------------------------

def _limits():
    os.setsid()
    # address-space cap per Kani process tree member: CBMC's array theory can otherwise take > 60 GB
    resource.setrlimit(resource.RLIMIT_AS, (MEM_LIMIT, MEM_LIMIT))


def _limits_big():
    # trace extraction for a counterexample needs more memory than the plain verdict
    os.setsid()
    resource.setrlimit(resource.RLIMIT_AS, (MEM_LIMIT * 5 // 2, MEM_LIMIT * 5 // 2))


def run_cmd(cmd, cwd, timeout, env=None, big=False):
    t0 = time.time()
    p = subprocess.Popen(cmd, cwd=cwd, env=env or ENV, stdout=subprocess.PIPE, stderr=subprocess.STDOUT,
                         text=True, preexec_fn=_limits_big if big else _limits, errors='replace')
    try:
        out, _ = p.communicate(timeout=timeout)
        timed_out = False
    except subprocess.TimeoutExpired:
        try:
            os.killpg(p.pid, signal.SIGKILL)
        except ProcessLookupError:
            pass
        out, _ = p.communicate()
        timed_out = True
    return p.returncode, out, time.time() - t0, timed_out


CHECK_RE = re.compile(
    r'Check \d+: ([^\n]+)\n\s*- Status: (\w+)\n\s*- Description: "(.*?)"\n(?:\s*- Location: ([^\n]*)\n|\n|Check )', re.S)


NOT_A_RUST_FAILURE = re.compile(r'^(NaN on (division|multiplication|addition|subtraction)|floating-point exception|arithmetic overflow on floating-point)')


def parse_kani(out):
    res = {'checks': [], 'failed': [], 'covers_total': 0, 'covers_sat': 0, 'covers_unsat': [],
           'unwind_failed': [], 'undetermined': 0}
    for m in CHECK_RE.finditer(out):
        name, status, desc, loc = m.groups()
        loc = loc or ''
        desc = re.sub(r'\s+', ' ', desc.strip('"'))
        fn = ''
        fm = re.search(r'in function (.+)$', loc)
        if fm:
            fn = fm.group(1)
        c = {'name': name, 'status': status, 'desc': desc, 'loc': loc, 'func': fn}
        if '.cover.' in name or desc.startswith('cover condition'):
            res['covers_total'] += 1
            if status == 'SATISFIED':
                res['covers_sat'] += 1
            else:
                res['covers_unsat'].append(c)
            continue
        res['checks'].append(c)
        if 'unwinding assertion' in desc:
            if status == 'FAILURE':
                res['unwind_failed'].append(c)
            continue
        if status == 'FAILURE' and NOT_A_RUST_FAILURE.search(desc):
            # CBMC float-model diagnostics (NaN produced by inf/inf, FE exceptions): IEEE semantics in
            # Rust, not a panic; what the NaN does afterwards is checked by the assertions downstream
            res.setdefault('ignored', []).append(c)
            continue
        if status == 'FAILURE':
            res['failed'].append(c)
        elif status == 'UNDETERMINED':
            res['undetermined'] += 1
    vm = re.findall(r'(\d+) variables, (\d+) clauses', out)
    res['sat_vars'] = max((int(a) for a, _ in vm), default=0)
    res['sat_clauses'] = max((int(b) for _, b in vm), default=0)
    res['solver_s'] = round(sum(float(x) for x in re.findall(r'Runtime decision procedure: ([0-9.e-]+)s', out)), 3)
    vt = re.search(r'Verification Time: ([0-9.]+)s', out)
    res['verification_s'] = float(vt.group(1)) if vt else None
    if 'VERIFICATION:- SUCCESSFUL' in out:
        res['verdict'] = 'SUCCESSFUL'
    elif 'VERIFICATION:- FAILED' in out:
        res['verdict'] = 'FAILED'
    else:
        res['verdict'] = 'NONE'
    return res


def check_key(c):
    """Stable identification of a failed check: its message (or built-in description) and function."""
    desc = re.sub(r'\s+', ' ', c['desc'])
    desc = re.sub(r'^assertion failed: ', '', desc)
    func = re.sub(r'::\{closure#\d+\}', '', c.get('func', ''))
    tm = re.match(r'^<(?:[\w:]*::)?(\w+)(?:<.*>)? as .*>::(\w+)$', func)
    if tm:
        func = f'{tm.group(1)}::{tm.group(2)}'
    else:
        func = re.sub(r'^.*?(\w+(?:::\w+)?)$', r'\1', func) if func else ''
    if re.match(r'^[A-Z]\d\d[.:]', desc):   # explicit assertion label from a harness
        return desc.split(' ')[0]
    return f'{desc} @ {func}'


def run_harness(crate_dir, h, scratch, playback=False):
    name = h['name']
    tdir = os.path.join(scratch, 'target', f"{os.path.basename(crate_dir)}__{name}")
    timeout = int(h.get('timeout', 300))
    cmd = ['cargo', 'kani', '--harness', h.get('qual', name), '--exact', '--target-dir', tdir]
    if h.get('args'):
        cmd += h['args'].split()
    if playback:
        cmd += ['-Z', 'concrete-playback', '--concrete-playback=print']
        timeout = timeout * 2
    rc, out, wall, timed_out = run_cmd(cmd, crate_dir, timeout, big=playback)
    os.makedirs(os.path.join(scratch, 'logs'), exist_ok=True)
    with open(os.path.join(scratch, 'logs', f"{os.path.basename(crate_dir)}__{name}{'.playback' if playback else ''}.log"), 'w') as f:
        f.write(out)
    res = parse_kani(out)
    res.update({'harness': name, 'crate': h['crate'], 'wall_s': round(wall, 2), 'rc': rc, 'timed_out': timed_out,
                'meta': h, 'out': out})
    if timed_out:
        res['state'] = 'undecided'
        res['why'] = f'timeout {timeout}s'
    elif 'out of memory' in out or 'CBMC failed' in out or 'std::bad_alloc' in out:
        res['state'] = 'undecided'
        res['why'] = 'CBMC failed / out of memory'
    elif res['verdict'] == 'NONE':
        res['state'] = 'infra'
        tail = '\n'.join(out.strip().split('\n')[-40:])
        res['why'] = 'no verdict from Kani (compile error, ICE or out of memory)\n' + tail
    elif res['unwind_failed']:
        res['state'] = 'infra'
        res['why'] = 'unwinding assertion failed (bound too small): ' + '; '.join(
            c['loc'] for c in res['unwind_failed'][:3])
    elif res['failed']:
        res['state'] = 'fail'
    elif res['verdict'] == 'FAILED' and not res.get('ignored'):
        res['state'] = 'infra'
        res['why'] = 'Kani reports FAILED without a failed check'
    elif res['covers_unsat']:
        res['state'] = 'vacuous'
        res['why'] = 'reachability cover not satisfied: ' + '; '.join(
            f"{c['desc']} [{c['status']}]" for c in res['covers_unsat'][:4])
    else:
        res['state'] = 'pass'
    shutil.rmtree(tdir, ignore_errors=True)
    return res


TEST_RE = re.compile(r'(/// Test generated for harness `([\w:]+)`.*?\n#\[test\]\nfn (\w+)\(\) \{.*?\n\})', re.S)


def playback(crate_dir, res, scratch):
    """Re-run a failed harness with concrete playback, run the generated tests natively.
    Returns list of dicts {check_desc, test, panicked, native_out, replay: {KEY: value}}."""
    h = res['meta']
    r2 = run_harness(crate_dir, h, scratch, playback=True)
    tests = []
    seen_names = set()
    for t in TEST_RE.findall(r2['out']):
        if t[2] not in seen_names:   # Kani may emit the same test for two checks
            seen_names.add(t[2])
            tests.append(t)
    if not tests:
        return [], 'no concrete playback test produced:\n' + r2['out'][-2000:]
    pdir = os.path.join(scratch, 'playback', f"{os.path.basename(crate_dir)}__{h['name']}")
    if os.path.exists(pdir):
        shutil.rmtree(pdir)
    shutil.copytree(crate_dir, pdir, ignore=shutil.ignore_patterns('target'))
    # switch on the native REPLAY printing of the harness
    for root, _d, fns in os.walk(os.path.join(pdir, 'src')):
        for fn in fns:
            p = os.path.join(root, fn)
            t = open(p, encoding='utf-8').read()
            if 'verif_playback' in t:
                t = t.replace('cfg(verif_playback)', 'cfg(all())').replace('cfg!(verif_playback)', 'cfg!(all())')
                open(p, 'w', encoding='utf-8').write(t)
    lib = os.path.join(pdir, 'src', 'lib.rs')
    with open(lib, 'a', encoding='utf-8') as f:
        f.write('\n#[cfg(test)]\nmod verif_playback_tests {\n    #[allow(unused_imports)]\n    use super::*;\n')
        if os.path.exists(os.path.join(pdir, 'src', 'harnesses.rs')):
            f.write('    #[allow(unused_imports)]\n    use super::harnesses::*;\n')
        for body, _harness, _tn in tests:
            # harness fn may be nested in a module: qualify through a glob import of all modules
            f.write(body + '\n')
        f.write('}\n')
    results = []
    for body, harness, tn in tests:
        dm = re.search(r'/// Check for `[^`]*`: (.*)$', body, re.M)
        desc = re.sub(r'\s+', ' ', dm.group(1).strip().strip('"')) if dm else ''
        if re.search(r'/// Check for `cover`', body):
            continue  # reachability witnesses need no replay
        rc, out, wall, to = run_cmd(['cargo', 'kani', 'playback', '-Z', 'concrete-playback', '--', tn,
                                     '--nocapture', '--test-threads', '1'], pdir, 600)
        compiled = 'running 1 test' in out or 'test result' in out
        panicked = bool(re.search(r'test result: FAILED', out)) and 'panicked at' in out
        replay = {}
        for m in re.finditer(r'^REPLAY-(\w+): ?(.*)$', out, re.M):
            replay.setdefault(m.group(1), []).append(m.group(2))
        pm = re.search(r"panicked at ([^\n]*):\n([^\n]*)", out)
        results.append({'check_desc': desc, 'test': body, 'test_name': tn, 'compiled': compiled,
                        'panicked': panicked, 'panic': (pm.group(2) + ' @ ' + pm.group(1)) if pm else None,
                        'replay': replay, 'native_out': out[-6000:]})
    shutil.rmtree(pdir, ignore_errors=True)
    return results, None


# ------------------------------------------------------------------------------------------------
# the real binary
# ------------------------------------------------------------------------------------------------

_bin_cache = {}


def jrsonnet_bin(profile='debug'):
    if profile in _bin_cache:
        return _bin_cache[profile]
    cmd = ['cargo', 'build', '--offline', '-p', 'jrsonnet']
    if profile == 'release':
        cmd.append('--release')
    rc, out, wall, to = run_cmd(cmd, REPO, 1800)
    path = os.path.join(REPO, 'target', profile, 'jrsonnet')
    if rc != 0 or not os.path.exists(path):
        raise Infra(f'cannot build jrsonnet ({profile}) from {REPO}:\n{out[-3000:]}')
    _bin_cache[profile] = path
    return path


def run_jsonnet(expr, profile='debug', extra=None, timeout=60):
    """Run expr on the real binary. Returns dict(kind= value|error|crash|timeout, text=...)."""
    b = jrsonnet_bin(profile)
    try:
        p = subprocess.run([b] + (extra or []) + ['-e', '--', expr], capture_output=True, text=True, timeout=timeout,
                           errors='replace', env=dict(ENV, RUST_BACKTRACE='0'))
    except subprocess.TimeoutExpired:
        return {'kind': 'timeout', 'text': ''}
    if p.returncode == 0:
        return {'kind': 'value', 'text': p.stdout.strip()}
    if 'panicked at' in p.stderr or p.returncode < 0 or p.returncode in (101, 134):
        return {'kind': 'crash', 'text': p.stderr.strip()[:600], 'rc': p.returncode}
    return {'kind': 'error', 'text': p.stderr.strip()[:600], 'rc': p.returncode}


def json_equal(a_text, b_text):
    try:
        return json.loads(a_text) == json.loads(b_text)
    except Exception:
        return a_text.strip() == b_text.strip()


def cli_confirm(replay):
    """replay: dict from REPLAY-* lines. JSONNET: program; EXPECT: 'value <json>' | 'error' | 'nocrash'.
    Returns (reproduced: bool|None, details)."""
    progs = replay.get('JSONNET') or []
    expects = replay.get('EXPECT') or []
    srcs = replay.get('SOURCEHEX') or []
    locs = replay.get('EXPECTLOC') or []
    if not progs and not srcs:
        return None, {'note': 'harness gives no language-level replay for this kernel'}
    details = []
    reproduced = False
    # whole source files (byte-exact) whose reported error location is the observable
    for i, hx in enumerate(srcs):
        want = locs[i] if i < len(locs) else ''
        import tempfile
        with tempfile.NamedTemporaryFile(suffix='.jsonnet', delete=False) as tf:
            tf.write(bytes.fromhex(hx))
            path = tf.name
        for profile in ('debug', 'release'):
            b = jrsonnet_bin(profile)
            try:
                p = subprocess.run([b, path], capture_output=True, text=True, timeout=60, errors='replace',
                                   env=dict(ENV, RUST_BACKTRACE='0'))
                got = p.stderr.strip()[:400]
                crashed = 'panicked at' in p.stderr
            except subprocess.TimeoutExpired:
                got, crashed = 'timeout', True
            ok = (want in got) and not crashed
            details.append({'source_hex': hx, 'expect_location': want, 'profile': profile, 'stderr': got, 'agrees_with_oracle': ok})
            if not ok:
                reproduced = True
        os.unlink(path)
    argl = replay.get('ARGS') or []
    for i, prog in enumerate(progs):
        exp = expects[i] if i < len(expects) else 'nocrash'
        try:
            extra = json.loads(argl[i]) if i < len(argl) else None
        except Exception:
            extra = None
        for profile in ('debug', 'release'):
            r = run_jsonnet(prog, profile, extra=extra)
            ok = True
            if r['kind'] in ('crash', 'timeout'):
                ok = False
            elif exp.startswith('value '):
                ok = r['kind'] == 'value' and json_equal(r['text'], exp[6:])
            elif exp == 'error':
                ok = r['kind'] == 'error'
            elif exp == 'nocrash':
                ok = True
            details.append({'program': prog, 'args': extra, 'expect': exp, 'profile': profile, 'got': r, 'agrees_with_oracle': ok})
            if not ok:
                reproduced = True
    return reproduced, details


# ------------------------------------------------------------------------------------------------
# known findings
# ------------------------------------------------------------------------------------------------

def load_known():
    p = os.path.join(VERIF, 'known_findings.json')
    if not os.path.exists(p):
        return {'findings': [], 'fixed': []}
    with open(p) as f:
        return json.load(f)


# ------------------------------------------------------------------------------------------------
# property run
# ------------------------------------------------------------------------------------------------

def playback_build_check(crate_dir, scratch):
    """Compile a crate with the cfg(verif_playback) code switched on (no solver run): catches errors in the
    replay-printing code before a counterexample needs it."""
    pdir = os.path.join(scratch, 'pbcheck', os.path.basename(crate_dir))
    if os.path.exists(pdir):
        shutil.rmtree(pdir)
    shutil.copytree(crate_dir, pdir, ignore=shutil.ignore_patterns('target'))
    for root, _d, fns in os.walk(os.path.join(pdir, 'src')):
        for fn in fns:
            p = os.path.join(root, fn)
            t = open(p, encoding='utf-8').read()
            if 'verif_playback' in t:
                t = t.replace('cfg(verif_playback)', 'cfg(all())').replace('cfg!(verif_playback)', 'cfg!(all())')
                open(p, 'w', encoding='utf-8').write(t)
    rc, out, wall, to = run_cmd(['cargo', 'kani', 'playback', '-Z', 'concrete-playback', '--', 'no_such_test_name'], pdir, 900)
    shutil.rmtree(pdir, ignore_errors=True)
    errs = [l for l in out.split('\n') if l.startswith('error')]
    return errs, out


def tier_ok(h, tier):
    t = h.get('tier', 'quick')
    return t == 'quick' or tier == 'thorough'


def run_property(prop, tier, spec, py_jobs=None):
    """spec: {'crates': [{'name':..., 'only': regex|None}], 'assumptions': [...], 'rule':..., ...}
    py_jobs: list of callables returning result dicts in the same shape as run_harness (SMT engines)."""
    t0 = time.time()
    seed = int(os.environ.get('VERIF_SEED', '0') or 0)
    scratch = os.environ.get('VERIF_SCRATCH') or f'/var/tmp/verif-{os.getpid()}'
    os.makedirs(scratch, exist_ok=True)
    results = []
    extractions = []
    infra = []
    violations = []
    known_hit = []
    try:
        jobs = []
        for c in spec.get('crates', []):
            try:
                d, rec, hs = generate_crate(c.get('prop', prop), c['name'], scratch)
            except Infra as e:
                infra.append(str(e))
                continue
            for r in rec:
                r['crate'] = c['name']
            extractions += rec
            if os.environ.get('VERIF_CHECK_PLAYBACK'):
                errs, pout = playback_build_check(d, scratch)
                if errs:
                    infra.append(f"crate {c['name']}: replay-printing code does not compile:\n" + '\n'.join(
                        l for l in pout.split('\n') if l.startswith('error') or l.startswith('  -->') or l.startswith('   -->'))[:2500])
                else:
                    log(f"[{prop}] crate {c['name']}: replay-printing code compiles")
                continue
            only = re.compile(c['only']) if c.get('only') else None
            sel = [h for h in hs if tier_ok(h, tier) and (not only or only.search(h['name']))]
            if tier == 'quick':
                for h in sel:
                    h['timeout'] = int(h.get('timeout', 300))
            else:
                for h in sel:
                    h['timeout'] = int(h.get('timeout_thorough', max(1800, int(h.get('timeout', 300)) * 4)))
            if not sel:
                infra.append(f"crate {c['name']}: no harness selected")
            jobs += [(d, h) for h in sel]
        workers = int(os.environ.get('VERIF_JOBS', str(max(2, NCPU - 2))))
        log(f'[{prop}] {len(jobs)} Kani harnesses, {len(py_jobs or [])} SMT jobs, tier={tier}, workers={workers}')
        with cf.ThreadPoolExecutor(max_workers=workers) as ex:
            futs = {ex.submit(run_harness, d, h, scratch): (d, h) for d, h in jobs}
            for pj in (py_jobs or []):
                futs[ex.submit(pj, tier)] = (None, {'name': getattr(pj, '__name__', 'smt')})
            for fu in cf.as_completed(futs):
                d, h = futs[fu]
                try:
                    r = fu.result()
                except Infra as e:
                    infra.append(f"{h['name']}: {e}")
                    continue
                except Exception as e:  # noqa
                    infra.append(f"{h['name']}: driver exception {e!r}")
                    continue
                rs = r if isinstance(r, list) else [r]
                for r in rs:
                    r['crate_dir'] = d
                    for x in r.pop('extractions', None) or []:
                        x.setdefault('crate', r.get('crate'))
                        extractions.append(x)
                    results.append(r)
                    log(f"[{prop}]   {r['harness']:<44} {r['state']:<9} {r.get('wall_s', 0):7.1f}s "
                        f"covers {r.get('covers_sat', 0)}/{r.get('covers_total', 0)}"
                        + (f"  failed: {[check_key(c) for c in r['failed']][:3]}" if r.get('failed') else ''))
        # ---- triage failures -------------------------------------------------------------------
        known = load_known()
        kf = {(k['property'], k['key']): k for k in known.get('findings', [])}
        failing = []
        for r in results:
            if r['state'] == 'undecided' and r.get('meta', {}).get('optional'):
                log(f"[{prop}] optional harness {r['harness']} not decided ({r.get('why')}); recorded in evidence only")
            elif r['state'] in ('infra', 'undecided', 'vacuous'):
                infra.append(f"{r['harness']}: {r['state']}: {r.get('why', '')}")
            elif r['state'] == 'fail':
                failing.append(r)

        def do_playback(r):
            if r.get('engine') == 'smt':
                return r.get('playback', []), None
            return playback(r['crate_dir'], r, scratch)

        with cf.ThreadPoolExecutor(max_workers=workers) as ex:
            pbs = list(ex.map(do_playback, failing))
        for r, (pb, err) in zip(failing, pbs):
            if err:
                infra.append(f"{r['harness']}: failed checks {[check_key(c) for c in r['failed']]} but {err}")
                continue
            r['replays'] = []
            by_desc = {}
            for p in pb:
                by_desc.setdefault(p['check_desc'].strip('"'), p)
            for c in r['failed']:
                key = f"{r['harness']}:{check_key(c)}"
                if re.match(r'^(harnesses|model|reference)::', c.get('func', '')) and not re.match(r'^[A-Z]\d\d[.:]', c['desc']):
                    infra.append(f"{key}: a built-in check failed inside the harness/reference code itself ({c['loc']}): harness bug, not a verdict")
                    continue
                p = by_desc.get(c['desc'])
                if p is None:
                    # Kani emits one test per failed check; fall back to any non-cover test of this harness
                    cands = [x for x in pb if not x['check_desc'].startswith('COVER: ')]
                    p = cands[0] if cands else None
                if p is None:
                    infra.append(f"{r['harness']}: no playback for {key}")
                    continue
                native = p.get('panicked')
                if not p.get('compiled'):
                    errs = '\n'.join(l for l in p.get('native_out', '').split('\n') if l.startswith('error') or l.startswith(' -->'))[:1500]
                    infra.append(f"{key}: playback test did not build/run natively:\n{errs}")
                    continue
                cli, cli_details = cli_confirm(p.get('replay', {})) if r.get('engine') != 'smt' else (
                    p.get('cli'), p.get('cli_details'))
                role = (p.get('replay', {}).get('ROLE') or [None])[0]
                if role:
                    key = f"{r['harness']}:{role}"
                replay_dir = os.path.join(VERIF, 'replays', prop)
                os.makedirs(replay_dir, exist_ok=True)
                hsh = hashlib.sha1((key + p.get('test', '')).encode()).hexdigest()[:10]
                rpath = os.path.join(replay_dir, f"{r['harness']}-{hsh}.txt")
                with open(rpath, 'w') as f:
                    f.write(f"property: {prop}\nharness: {r['harness']}\nfinding key: {key}\n"
                            f"failed check: {c['desc']}\nlocation: {c['loc']}\n\n"
                            f"--- concrete playback test (solver assignment) ---\n{p.get('test', '')}\n\n"
                            f"--- native run of the harness body on that assignment (dev profile) ---\n"
                            f"panicked: {native}  {p.get('panic')}\n"
                            f"REPLAY lines: {json.dumps(p.get('replay', {}), indent=1)}\n\n"
                            f"--- real jrsonnet binary built from {REPO} ---\n{json.dumps(cli_details, indent=1)}\n")
                entry = {'key': key, 'check': c['desc'], 'loc': c['loc'], 'native_reproduced': native,
                         'cli_reproduced': cli, 'replay': rpath, 'inputs': p.get('replay', {})}
                r['replays'].append(entry)
                if not native and r.get('engine') != 'smt':
                    infra.append(f"{key}: solver counterexample did NOT reproduce natively (encoding suspect), see {rpath}")
                    continue
                if cli is False:
                    infra.append(f"{key}: counterexample reproduces in the extracted kernel but the real binary "
                                 f"agrees with the oracle on the replay program (stand-in or assumption suspect), see {rpath}")
                    continue
                if (prop, key) in kf:
                    known_hit.append((key, kf[(prop, key)].get('what', '')))
                else:
                    violations.append((key, rpath))
    finally:
        if not os.environ.get('VERIF_KEEP'):
            shutil.rmtree(scratch, ignore_errors=True)

    if os.environ.get('VERIF_CHECK_PLAYBACK'):
        # build-only self test of the replay-printing code: no verdict, no evidence
        for i in infra:
            log(f'[{prop}] {i}')
        return 2 if infra else 0
    if not results:
        infra.append('no solver job ran')
    # ---- evidence -------------------------------------------------------------------------------
    wall = time.time() - t0
    samples = []
    nontrivial = 0
    for r in sorted(results, key=lambda r: r['harness']):
        m = r.get('meta', {})
        ok_cov = r.get('covers_total', 0) > 0 and r.get('covers_sat', 0) == r.get('covers_total', 0)
        if r['state'] in ('pass', 'fail') and ok_cov:
            nontrivial += 1
        samples.append({
            'harness': r['harness'], 'engine': r.get('engine', 'kani'), 'crate': r.get('crate'),
            'what': m.get('desc', ''), 'bounds': m.get('bounds', ''), 'unwind': m.get('unwind'),
            'result': r['state'], 'checks': len(r.get('checks', [])),
            'failed_checks': [check_key(c) for c in r.get('failed', [])],
            'covers': f"{r.get('covers_sat', 0)}/{r.get('covers_total', 0)}",
            'sat_vars': r.get('sat_vars'), 'sat_clauses': r.get('sat_clauses'),
            'solver_s': r.get('solver_s'), 'wall_s': r.get('wall_s'),
            'replays': r.get('replays', []),
        })
    ev = {
        'property_id': prop, 'tier': tier, 'seed': seed, 'level': 'model_checking',
        'coverage': {
            'evaluations': len(results),
            'distinct_nontrivial': nontrivial,
            'rule': spec.get('rule', 'one evaluation = one solver-decided harness (Kani/CBMC) or SMT query set; it counts '
                             'as non-trivial when every reachability cover placed after its assertions was satisfied'),
            'samples': samples,
            'exhaustive': False,
            'functions_encoded': extractions,
            'solver_queries': sum(len(r.get('checks', [])) + r.get('covers_total', 0) for r in results),
            'solver_seconds': round(sum((r.get('solver_s') or 0) for r in results), 2),
            'known_findings_hit': [k for k, _ in known_hit],
            'infrastructure_errors': infra,
            'bounds': spec.get('bounds', ''),
            'outside_claim': spec.get('out', ''),
            'repo': REPO,
        },
        'assumptions': spec.get('assumptions', []),
        'wall_s': round(wall, 2),
        'violations': len(violations),
    }
    os.makedirs(os.path.join(VERIF, 'evidence'), exist_ok=True)
    # debugging runs (--only, seeded-change runs) must not replace the evidence of the registered command
    ev_name = f'{prop}.partial.json' if os.environ.get('VERIF_PARTIAL') else f'{prop}.json'
    with open(os.path.join(VERIF, 'evidence', ev_name), 'w') as f:
        json.dump(ev, f, indent=1)
    for key, what in known_hit:
        print(f'KNOWN-FINDING: property={prop} {key} {what}')
    for key, rpath in violations:
        print(f'VIOLATION property={prop} replay={rpath}')
        print(f'  finding: {key}')
    for i in infra:
        log(f'[{prop}] NOT DECIDED / INFRASTRUCTURE: {i}')
    if violations:
        return 1
    if infra:
        return 2
    print(f'[{prop}] held on everything explored: {len(results)} solver jobs, {nontrivial} with all covers reached, '
          f'{len(known_hit)} known finding(s), {wall:.0f}s')
    return 0
