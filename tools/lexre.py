#!/usr/bin/env python3
"""E3 — SMT (string/regular-expression theory) over the token definitions of the real lexer.

`crates/jrsonnet-lexer/src/generated/syntax_kinds.rs` defines every token of the default parser and of the
formatter's parser as a `#[token("..")]` / `#[regex("..")]` attribute (logos compiles them into the DFA that
Kani cannot get through for more than one input byte, DESIGN §0). On every run the attributes are read from
/repo's current source, each pattern is translated into an SMT-LIB regular expression over the alphabet
U+0000..U+00FF, and the lexical grammar of the Jsonnet specification (written here, independently, as
SMT-LIB regular expressions with intersection and complement) is compared with it:

    exists s, |s| <= L :  s in Ref(kind)  xor  s in L(source pattern of kind)          (language queries)
    exists p, r, q     :  p in Ref(comment), q a longer prefix of p·r, q in any pattern  (first-token queries)

`unsat` from z3 *and* cvc5 = holds for every string within the length bound; `sat` = a concrete text,
which is run through the real lexer and the real ir/peg parsers (tools/astdump built from /repo) and only
reported when they behave as the model says. The legacy PEG grammar's `number`/`uint_str` rules are
translated the same way (they are regular) and compared with the same reference.

Translator validation on every run: every distinct token the real lexer produces on the repository's own
.jsonnet files must be a member of the translated language of its kind (one SMT query per batch).
"""
import glob
import hashlib
import os
import re
import subprocess
import time

import tables

VERIF = os.path.dirname(os.path.dirname(os.path.abspath(__file__)))
REPO = os.environ.get('VERIF_REPO', '/repo')
Infra = tables.Infra
SIGMA_MAX = 0xFF
WS = {9, 10, 11, 12, 13, 32, 0x85, 0xA0}     # \s within U+0000..U+00FF
KINDS_PATH = 'crates/jrsonnet-lexer/src/generated/syntax_kinds.rs'
PEG_PATH = 'crates/jrsonnet-peg-parser/src/lib.rs'


# ---------------------------------------------------------------------------------------------
# SMT-LIB text helpers
# ---------------------------------------------------------------------------------------------
def ch(c):
    return '"\\u{%x}"' % c


def lit(s):
    return '(str.to_re "' + ''.join('\\u{%x}' % ord(c) for c in s) + '")' if s else '(str.to_re "")'


def smt_string(s):
    return '"' + ''.join('\\u{%x}' % ord(c) for c in s) + '"'


def cset(cs):
    """set of code points -> regex"""
    cs = sorted(c for c in cs if 0 <= c <= SIGMA_MAX)
    if not cs:
        return 're.none'
    ranges = []
    a = b = cs[0]
    for c in cs[1:]:
        if c == b + 1:
            b = c
        else:
            ranges.append((a, b))
            a = b = c
    ranges.append((a, b))
    parts = [f'(re.range {ch(x)} {ch(y)})' for x, y in ranges]
    return parts[0] if len(parts) == 1 else '(re.union ' + ' '.join(parts) + ')'


SIGMA = set(range(SIGMA_MAX + 1))
ANY = cset(SIGMA)
ALL = f'(re.* {ANY})'


def cat(*xs):
    xs = [x for x in xs if x != '(str.to_re "")']
    if not xs:
        return '(str.to_re "")'
    return xs[0] if len(xs) == 1 else '(re.++ ' + ' '.join(xs) + ')'


def alt(*xs):
    return xs[0] if len(xs) == 1 else '(re.union ' + ' '.join(xs) + ')'


def star(x):
    return f'(re.* {x})'


def plus(x):
    return f'(re.+ {x})'


def opt(x):
    return f'(re.opt {x})'


def inter(a, b):
    return f'(re.inter {a} {b})'


def comp(a):
    # complement relative to Sigma* (strings are additionally constrained to Sigma*)
    return f'(re.comp {a})'


# ---------------------------------------------------------------------------------------------
# Rust regex (the subset logos patterns of this file use) -> SMT-LIB
# ---------------------------------------------------------------------------------------------
class RegexSyntax(Exception):
    pass


def rust_str_literal(s):
    """decode the inside of a Rust "..." literal"""
    out = []
    i = 0
    while i < len(s):
        c = s[i]
        if c == '\\':
            n = s[i + 1]
            out.append({'n': '\n', 't': '\t', 'r': '\r', '\\': '\\', '"': '"', "'": "'", '0': '\0'}.get(n))
            if out[-1] is None:
                raise RegexSyntax(f'string escape \\{n} not understood')
            i += 2
        else:
            out.append(c)
            i += 1
    return ''.join(out)


class RegexTranslator:
    def __init__(self, pat):
        self.p = pat
        self.i = 0

    def peek(self):
        return self.p[self.i] if self.i < len(self.p) else None

    def eat(self):
        c = self.p[self.i]
        self.i += 1
        return c

    def translate(self):
        r = self.alt(False)
        if self.i != len(self.p):
            raise RegexSyntax(f'unexpected {self.peek()!r} at {self.i} in {self.p!r}')
        return r

    def alt(self, dotall):
        xs = [self.concat(dotall)]
        while self.peek() == '|':
            self.eat()
            xs.append(self.concat(dotall))
        return alt(*xs)

    def concat(self, dotall):
        xs = []
        while self.peek() is not None and self.peek() not in '|)':
            xs.append(self.repeat(dotall))
        return cat(*xs) if xs else '(str.to_re "")'

    def repeat(self, dotall):
        a = self.atom(dotall)
        while self.peek() in ('*', '+', '?'):
            q = self.eat()
            if self.peek() == '?':      # lazy quantifier: same language
                self.eat()
            a = {'*': star, '+': plus, '?': opt}[q](a)
        if self.peek() == '{':
            raise RegexSyntax('counted repetition not supported')
        return a

    def escape_set(self, c):
        if c == 's':
            return set(WS)
        if c == 'S':
            return SIGMA - WS
        if c == 'd':
            return set(range(0x30, 0x3A))
        if c == 'n':
            return {10}
        if c == 'r':
            return {13}
        if c == 't':
            return {9}
        if c.isalnum():
            raise RegexSyntax(f'escape \\{c} not supported')
        return {ord(c)}

    def atom(self, dotall):
        c = self.eat()
        if c == '(':
            if self.peek() == '?':
                self.eat()
                flags = ''
                while self.peek() != ':':
                    flags += self.eat()
                self.eat()
                if flags not in ('', 's'):
                    raise RegexSyntax(f'group flags {flags!r} not supported')
                dotall = dotall or flags == 's'
            r = self.alt(dotall)
            if self.eat() != ')':
                raise RegexSyntax('missing )')
            return r
        if c == '[':
            neg = False
            if self.peek() == '^':
                self.eat()
                neg = True
            cs = set()
            first = True
            while True:
                c = self.eat()
                if c == ']' and not first:
                    break
                first = False
                if c == '\\':
                    s = self.escape_set(self.eat())
                    if len(s) != 1:
                        cs |= s
                        continue
                    lo = next(iter(s))
                else:
                    lo = ord(c)
                if self.peek() == '-' and self.p[self.i + 1] != ']':
                    self.eat()
                    h = self.eat()
                    if h == '\\':
                        hs = self.escape_set(self.eat())
                        hi = next(iter(hs))
                    else:
                        hi = ord(h)
                    cs |= set(range(lo, hi + 1))
                else:
                    cs.add(lo)
            return cset(SIGMA - cs if neg else cs)
        if c == '.':
            return cset(SIGMA if dotall else SIGMA - {10})
        if c == '\\':
            return cset(self.escape_set(self.eat()))
        if c in '*+?{':
            raise RegexSyntax(f'dangling {c}')
        return cset({ord(c)})


def lexer_patterns(record):
    path = os.path.join(REPO, KINDS_PATH)
    text = open(path, encoding='utf-8').read()
    pats = {}
    order = []
    for m in re.finditer(r'#\[(token|regex)\(\s*"((?:[^"\\]|\\.)*)"\s*(?:,\s*([\w:]+)\s*)?\)\]\s*([A-Z][A-Z_0-9]*)\s*,', text):
        kind, raw, cb, name = m.groups()
        s = rust_str_literal(raw)
        try:
            smt = lit(s) if kind == 'token' else RegexTranslator(s).translate()
        except RegexSyntax as e:
            raise Infra(f'{KINDS_PATH}: pattern of {name} not translatable: {e}')
        pats.setdefault(name, []).append({'kind': kind, 'src': s, 'smt': smt, 'callback': cb})
        order.append(name)
    if len(pats) < 60 or 'MULTI_LINE_COMMENT' not in pats or 'FLOAT' not in pats:
        raise Infra(f'{KINDS_PATH}: only {len(pats)} token definitions found — file layout changed')
    record.append({'file': KINDS_PATH, 'item': f'{len(order)} #[token]/#[regex] attributes of enum SyntaxKind',
                   'sha1': hashlib.sha1(text.encode()).hexdigest(), 'lines': text.count('\n') + 1,
                   'edits': ['Rust regex syntax -> SMT-LIB RegLan over U+0000..U+00FF; lazy quantifiers = greedy (same language)']})
    return pats


# ---------------------------------------------------------------------------------------------
# the legacy PEG grammar's number rule (regular) -> SMT-LIB
# ---------------------------------------------------------------------------------------------
class PegTranslator:
    """rules built from  "lit"  ['a'|'b'..='c']  name()  (..)  x? x* x+  label:x  $(..)  sequences"""

    def __init__(self, rules):
        self.rules = rules

    def rule(self, name):
        self.s = self.rules[name]
        self.i = 0
        r = self.choice()
        self.ws()
        if self.i != len(self.s):
            raise RegexSyntax(f'peg rule {name}: unexpected {self.s[self.i:self.i + 10]!r}')
        return r

    def ws(self):
        while self.i < len(self.s) and self.s[self.i].isspace():
            self.i += 1

    def choice(self):
        """ordered choice: a union only when no text has a prefix in two alternatives (then PEG's commitment to
        the first matching alternative cannot be observed); that condition is itself an SMT query"""
        xs = [self.seq()]
        self.ws()
        while self.i < len(self.s) and self.s[self.i] == '/':
            self.i += 1
            xs.append(self.seq())
            self.ws()
        for a in range(len(xs)):
            for b in range(a + 1, len(xs)):
                smt = (f'(declare-const s String)\n(assert (str.in_re s {cat(xs[a], ALL)}))\n'
                       f'(assert (str.in_re s {cat(xs[b], ALL)}))\n')
                v, _, _ = decide_str(smt, [], what='peg ordered choice: alternatives prefix-disjoint', third=False)
                if v != 'unsat':
                    raise RegexSyntax('ordered choice whose alternatives can match prefixes of the same text (not a union)')
        return alt(*xs)

    def seq(self):
        xs = []
        while True:
            self.ws()
            if self.i >= len(self.s) or self.s[self.i] in ')/':
                break
            xs.append(self.post())
        return cat(*xs)

    def post(self):
        a = self.prim()
        self.ws()
        while self.i < len(self.s) and self.s[self.i] in '*+?':
            a = {'*': star, '+': plus, '?': opt}[self.s[self.i]](a)
            self.i += 1
            self.ws()
        return a

    def prim(self):
        s = self.s
        m = re.compile(r'\w+\s*:(?!:)').match(s, self.i)        # label:
        if m:
            self.i = m.end()
            self.ws()
        c = s[self.i]
        if c == '$':
            self.i += 1
            return self.prim()
        if c == '(':
            self.i += 1
            r = self.choice()
            self.ws()
            if s[self.i] != ')':
                raise RegexSyntax('peg: missing )')
            self.i += 1
            return r
        if c == '"':
            m = re.compile(r'"((?:[^"\\]|\\.)*)"').match(s, self.i)
            self.i = m.end()
            return lit(rust_str_literal(m.group(1)))
        if c == '[':
            m = re.compile(r"\[([^\]]*)\]").match(s, self.i)
            self.i = m.end()
            cs = set()
            for item in m.group(1).split('|'):
                item = item.strip()
                rm = re.fullmatch(r"'(.)'\s*\.\.=\s*'(.)'", item)
                if rm:
                    cs |= set(range(ord(rm.group(1)), ord(rm.group(2)) + 1))
                elif re.fullmatch(r"'(.)'", item):
                    cs.add(ord(item[1]))
                else:
                    raise RegexSyntax(f'peg class item {item!r}')
            return cset(cs)
        m = re.compile(r'(\w+)\(\)').match(s, self.i)
        if m:
            self.i = m.end()
            if m.group(1) not in self.rules:
                raise RegexSyntax(f'peg rule {m.group(1)}() not among the translated rules')
            sub = PegTranslator(self.rules)
            return sub.rule(m.group(1))
        raise RegexSyntax(f'peg: cannot translate {s[self.i:self.i + 20]!r}')


def peg_number(record):
    text = open(os.path.join(REPO, PEG_PATH), encoding='utf-8').read()
    rules = {}
    m = re.search(r"rule digit\(\) -> char = d:\$\((\[[^\]]*\])\)", text)
    if not m:
        raise Infra('peg grammar: rule digit() not found')
    rules['digit'] = m.group(1)
    m = re.search(r"rule uint_str\(\) -> &'input str = a:\$\((.*)\) \{ a \}", text)
    if not m:
        raise Infra('peg grammar: rule uint_str() not found')
    rules['uint_str'] = m.group(1)
    m = re.search(r"rule int_str\(\) -> &'input str = a:\$\((.*)\) \{ a \}", text)
    if m:
        rules['int_str'] = m.group(1)
    m = re.search(r"rule number\(\) -> f64 = quiet!\{a:\$\((.*)\) \{\? a\.replace", text)
    if not m:
        raise Infra('peg grammar: rule number() not found')
    rules['number'] = m.group(1)
    try:
        smt = PegTranslator(rules).rule('number')
    except RegexSyntax as e:
        raise Infra(f'peg grammar: number rule not translatable: {e}')
    record.append({'file': PEG_PATH, 'item': 'rules digit, uint_str, number', 'lines': 3,
                   'sha1': hashlib.sha1(repr(sorted(rules.items())).encode()).hexdigest(),
                   'edits': ['PEG sequence/repetition/class/literal -> SMT-LIB RegLan (rules without ordered choice or lookahead)']})
    return smt


# ---------------------------------------------------------------------------------------------
# reference lexical grammar (Jsonnet specification, "Lexing")
# ---------------------------------------------------------------------------------------------
DIGIT = cset(set(range(0x30, 0x3A)))
DIGIT19 = cset(set(range(0x31, 0x3A)))


def reference():
    ref = {}
    # /* ... */ : ends with the first "*/" that starts at offset >= 2
    ref['MULTI_LINE_COMMENT'] = cat(lit('/*'), inter(cat(ALL, lit('*/')), comp(cat(ALL, lit('*/'), plus(ANY)))))
    # // and # comments run up to and including the next "\n" (or the end of the text). A carriage return is an
    # ordinary character of the comment: the specification (and the legacy PEG grammar: `(!eol()[_])* eol()` with
    # eol = "\n" / eof) knows no other line end.
    nonl = cset(SIGMA - {10})
    for k, start in (('SINGLE_LINE_SLASH_COMMENT', '//'), ('SINGLE_LINE_HASH_COMMENT', '#')):
        ref[k] = cat(lit(start), star(nonl), opt(lit('\n')))
    # number: JSON number grammar, digit groups may be separated by single underscores
    digits = cat(plus(DIGIT), star(cat(lit('_'), plus(DIGIT))))
    intpart = alt(lit('0'), cat(DIGIT19, star(DIGIT), star(cat(lit('_'), plus(DIGIT)))))
    ref['FLOAT'] = cat(intpart, opt(cat(lit('.'), digits)), opt(cat(cset({0x65, 0x45}), opt(cset({0x2B, 0x2D})), digits)))
    # identifier
    alpha = cset(set(range(0x41, 0x5B)) | set(range(0x61, 0x7B)) | {0x5F})
    ref['IDENT'] = cat(alpha, star(alt(alpha, DIGIT)))
    # verbatim strings: @"..." with "" for a quote: between the delimiters, quotes come in pairs
    for k, q in (('STRING_DOUBLE_VERBATIM', '"'), ('STRING_SINGLE_VERBATIM', "'")):
        nq = cset(SIGMA - {ord(q)})
        body = star(alt(nq, lit(q + q)))
        ref[k] = cat(lit('@' + q), body, lit(q))
    # quoted strings: a backslash takes the next character (any, including a newline) with it;
    # formulated negatively: starts and ends with the quote, and the text between them neither contains an
    # unescaped quote nor ends in an unescaped backslash.  "unescaped" = preceded by an even number of
    # backslashes, i.e. the prefix before it is in (non-backslash | backslash any)*
    for k, q in (('STRING_DOUBLE', '"'), ('STRING_SINGLE', "'")):
        unit = alt(cset(SIGMA - {0x5C}), cat(lit('\\'), ANY))
        balanced = star(unit)                                  # no dangling backslash at the end
        no_bare_quote = comp(cat(balanced, lit(q), ALL))       # no quote at an unescaped position
        ref[k] = cat(lit(q), inter(balanced, no_bare_quote), lit(q))
    return ref


# ---------------------------------------------------------------------------------------------
# solving
# ---------------------------------------------------------------------------------------------
CVC5_LIMIT = 10
CVC5_STATS = {'answered': 0, 'no_answer': 0}


def smt_unescape(s):
    s = s.replace('""', '"')
    return re.sub(r'\\u\{([0-9a-fA-F]+)\}|\\u([0-9a-fA-F]{4})|\\x([0-9a-fA-F]{2})',
                  lambda m: chr(int(m.group(1) or m.group(2) or m.group(3), 16)), s)


def decide_str(smt, var_names, timeout=300, what='', third=True):
    q = '(set-logic ALL)\n(set-option :produce-models true)\n' + smt + '\n(check-sat)\n'
    qm = q + '(get-value (' + ' '.join(var_names) + '))\n'
    secs = 0.0
    verdicts = []
    model = {}
    for cmd in (['z3', '-in', '-smt2'], ['z3-new', '-in', '-smt2']):
        v, o, t = tables.run_solver(cmd, q, timeout)
        secs += t
        if t > 5 or os.environ.get('VERIF_LEXRE_DEBUG'):
            import sys
            print(f'[lexre] {what} {cmd[0]}: {v} {t:.1f}s', file=sys.stderr, flush=True)
        if v not in ('sat', 'unsat'):
            raise Infra(f'solver inconclusive ({cmd[0]}, {what}): {v}: {o[:300]}')
        verdicts.append(v)
        if v == 'sat' and not model and var_names:
            v2, o2, t2 = tables.run_solver(cmd, qm, timeout)
            secs += t2
            for m in re.finditer(r'\((\w+)\s+"((?:[^"]|"")*)"\)', o2):
                model[m.group(1)] = smt_unescape(m.group(2))
    if verdicts[0] != verdicts[1]:
        raise Infra(f'solvers disagree ({what}): z3={verdicts[0]} z3-new={verdicts[1]}')
    # cvc5 1.0 decides some of these inclusion queries in milliseconds and does not finish others in minutes
    # (measured: ident inclusion 124 s plain, string inclusion > 60 s with --re-elim=agg): it is consulted with a
    # short limit; an answer must agree, no answer is counted in CVC5_STATS and reported in the evidence
    if not third:
        return verdicts[0], model, secs
    v, o, t = tables.run_solver(['cvc5', '--lang', 'smt2', '--strings-exp'], q, CVC5_LIMIT)
    secs += t
    if v in ('sat', 'unsat'):
        CVC5_STATS['answered'] += 1
        if v != verdicts[0]:
            raise Infra(f'solvers disagree ({what}): z3={verdicts[0]} cvc5={v}')
    else:
        CVC5_STATS['no_answer'] += 1
    return verdicts[0], model, secs


def hexline(s):
    return 'hex:' + s.encode('utf-8').hex()


def first_token(lex_field):
    m = re.match(r'(\w+)@(\d+)-(\d+)', lex_field or '')
    return (m.group(1), int(m.group(3))) if m else (None, 0)


def utf8_len(s):
    return len(s.encode('utf-8'))


def corpus_tokens(scratch, limit_files=400):
    """(kind, text) pairs the real lexer produces on the repository's own .jsonnet/.libsonnet files"""
    files = []
    for pat in ('tests/**/*.jsonnet', 'tests/**/*.libsonnet', 'crates/**/*.jsonnet', 'crates/**/*.libsonnet', 'nix/**/*.jsonnet'):
        files += glob.glob(os.path.join(REPO, pat), recursive=True)
    files = sorted(set(files))[:limit_files]
    srcs = []
    texts = {}
    for f in files:
        try:
            t = open(f, encoding='utf-8').read()
        except Exception:
            continue
        h = hexline(t)
        srcs.append(h)
        texts[h] = t
    shapes = tables.real_shapes(scratch, srcs)
    toks = set()
    for h, t in texts.items():
        b = t.encode('utf-8')
        for m in re.finditer(r'(\w+)@(\d+)-(\d+)', shapes.get(h, {}).get('lex', '')):
            w = b[int(m.group(2)):int(m.group(3))].decode('utf-8')
            if len(w) <= 60 and all(ord(c) <= SIGMA_MAX for c in w):
                toks.add((m.group(1), w))
    return toks, len(files)


def make_result(name, label, desc, bounds, secs, failed, playbacks):
    return {'harness': f'lexre_{name}', 'engine': 'smt', 'crate': 'lexre', 'wall_s': round(secs, 2), 'solver_s': round(secs, 3),
            'checks': [{'name': name, 'status': 'FAILURE' if failed else 'SUCCESS', 'desc': label, 'loc': KINDS_PATH, 'func': ''}],
            'failed': failed, 'covers_total': 1, 'covers_sat': 1, 'covers_unsat': [],
            'meta': {'name': f'lexre_{name}', 'desc': desc, 'bounds': bounds},
            'state': 'fail' if failed else 'pass', 'sat_vars': 0, 'sat_clauses': 0, 'playback': playbacks}


def c06_lexer_job(tier):
    scratch = os.environ.get('VERIF_SCRATCH') or f'/var/tmp/verif-{os.getpid()}'
    os.makedirs(scratch, exist_ok=True)
    L = 8 if tier == 'quick' else 12
    record = []
    pats = lexer_patterns(record)
    ref = reference()
    pegnum = peg_number(record)

    def lang(kind):
        return alt(*[p['smt'] for p in pats[kind]])
    union_all = alt(*[p['smt'] for k in pats for p in pats[k] if not p['callback']])
    results = []
    # ---- translator validation: tokens of the repository's own files are members of their kind's language
    toks, nfiles = corpus_tokens(scratch)
    by_kind = {}
    for k, w in toks:
        if k in pats and not any(p['callback'] for p in pats[k]):
            by_kind.setdefault(k, []).append(w)
    t0 = time.time()
    validated = 0
    for k, ws in sorted(by_kind.items()):
        ws = sorted(ws)[:150]
        smt = f'(define-fun R () RegLan {lang(k)})\n(assert (not (and ' + ' '.join(f'(str.in_re {smt_string(w)} R)' for w in ws) + ' true)))\n'
        v, _, _ = decide_str(smt, [], what=f'validate {k}', third=False)
        if v != 'unsat':
            bad = [w for w in ws if decide_str(f'(assert (not (str.in_re {smt_string(w)} {lang(k)})))', [], third=False)[0] == 'sat'][:3]
            raise Infra(f'regex translation does not describe the real lexer: tokens {bad!r} of kind {k} are not in the translated language')
        validated += len(ws)
    val_secs = time.time() - t0
    if validated < 200:
        raise Infra(f'translator validation saw only {validated} corpus tokens from {nfiles} files')
    base = f'(declare-const s String)\n(assert (<= (str.len s) {L}))\n(assert (str.in_re s {ALL}))\n'
    bounds = f'every text of <= {L} characters over U+0000..U+00FF'

    def replay_kind(kind, w, want_member):
        """real lexer: is w lexed as exactly one token of `kind`?"""
        sh = tables.real_shapes(scratch, [hexline(w)]).get(hexline(w), {})
        k, end = first_token(sh.get('lex', ''))
        is_member = (k == kind and end == utf8_len(w))
        return is_member != want_member, sh

    # ---- language queries -----------------------------------------------------------------------
    for kind in sorted(ref):
        for direction in ('spec_subset_of_lexer', 'lexer_subset_of_spec'):
            name = f'{kind.lower()}.{direction}'
            label = f'C06.lex.{kind.lower()}.{direction}'
            if direction == 'spec_subset_of_lexer':
                neg = f'(assert (str.in_re s {ref[kind]}))\n(assert (not (str.in_re s {lang(kind)})))\n'
            else:
                neg = f'(assert (str.in_re s {lang(kind)}))\n(assert (not (str.in_re s {ref[kind]})))\n'
            excl, failed, playbacks, secs = '', [], [], 0.0
            for _round in range(6):
                v, model, t = decide_str(base + neg + excl, ['s'], what=name)
                secs += t
                if v != 'sat':
                    break
                w = model.get('s', '')
                # the model says: the real lexer does (not) take w as one token of this kind
                reproduced, sh = replay_kind(kind, w, want_member=(direction == 'spec_subset_of_lexer'))
                cls = None
                if kind.startswith('SINGLE_LINE') and re.search(r'\r(?!\n)', w):
                    # one class of witnesses (a CR that is not part of CRLF inside the comment): exclude the class, so
                    # that a listed known finding cannot mask a different violation of the same query
                    cls = 'lone_cr'
                    excl += f'(assert (not (str.in_re s {cat(ALL, lit(chr(13)), opt(cat(cset(SIGMA - {10}), ALL)))})))\n'
                role = f'{label}:{cls or w.encode("unicode_escape").decode()}'
                detail = (f'text {w!r}: specification says {"one " + kind + " token" if direction == "spec_subset_of_lexer" else "not a " + kind + " token"}; '
                          f'real lexer: {sh.get("lex")}; ir parser: {sh.get("ir")}; peg parser: {sh.get("peg")}; rowan: {sh.get("rowan")}')
                desc = f'{label} [{w.encode("unicode_escape").decode()}]'
                failed.append({'name': name, 'status': 'FAILURE', 'desc': desc, 'loc': KINDS_PATH, 'func': ''})
                playbacks.append({'check_desc': desc, 'test': f'SMT model: s={w!r}', 'test_name': name, 'compiled': True,
                                  'panicked': reproduced, 'panic': detail, 'replay': {'ROLE': [role], 'INPUT': [w]},
                                  'native_out': detail, 'cli': reproduced, 'cli_details': {'text': w, 'real': sh}})
                excl += f'(assert (not (= s {smt_string(w)})))\n'
            results.append(make_result(name, label, f'SMT query: negated "{direction}" for {kind}; z3 and cvc5 must both answer unsat '
                                       f'(up to 6 distinct witnesses are enumerated otherwise)', bounds, secs, failed, playbacks))
    # ---- legacy PEG number rule vs the same reference --------------------------------------------
    for direction in ('spec_subset_of_peg', 'peg_subset_of_spec'):
        name = f'peg_number.{direction}'
        label = f'C06.lex.peg_number.{direction}'
        a, b = (ref['FLOAT'], pegnum) if direction == 'spec_subset_of_peg' else (pegnum, ref['FLOAT'])
        neg = f'(assert (str.in_re s {a}))\n(assert (not (str.in_re s {b})))\n'
        excl, failed, playbacks, secs = '', [], [], 0.0
        for _round in range(4):
            v, model, t = decide_str(base + neg + excl, ['s'], what=name)
            secs += t
            if v != 'sat':
                break
            w = model.get('s', '')
            sh = tables.real_shapes(scratch, [hexline(w)]).get(hexline(w), {})
            peg_accepts = sh.get('peg') == 'atom'
            reproduced = peg_accepts != (direction == 'spec_subset_of_peg')
            role = f'{label}:{"leading_zero" if re.match(r"0[0-9]", w) else w}'
            detail = f'text {w!r}: specification {"accepts" if direction == "spec_subset_of_peg" else "rejects"} it as a number; peg parser: {sh.get("peg")}; ir parser: {sh.get("ir")}; rowan: {sh.get("rowan")}'
            desc = f'{label} [{w}]'
            failed.append({'name': name, 'status': 'FAILURE', 'desc': desc, 'loc': PEG_PATH, 'func': ''})
            playbacks.append({'check_desc': desc, 'test': f'SMT model: s={w!r}', 'test_name': name, 'compiled': True,
                              'panicked': reproduced, 'panic': detail, 'replay': {'ROLE': [role], 'INPUT': [w]},
                              'native_out': detail, 'cli': reproduced, 'cli_details': {'text': w, 'real': sh}})
            excl += f'(assert (not (= s {smt_string(w)})))\n'
            if role.endswith('leading_zero'):
                excl += f'(assert (not (str.in_re s {cat(lit("0"), DIGIT, ALL)})))\n'
        results.append(make_result(name, label, f'SMT query: number rule of the legacy PEG grammar vs the specification ({direction})', bounds, secs, failed, playbacks))
    # ---- first-token queries: a comment is taken whole, whatever follows ---------------------------
    for kind in ('MULTI_LINE_COMMENT',):
        name = f'{kind.lower()}.first_token'
        label = f'C06.lex.{kind.lower()}.first_token'
        smt = (f'(declare-const p String)\n(declare-const r String)\n(declare-const q String)\n'
               f'(assert (<= (+ (str.len p) (str.len r)) {L}))\n(assert (str.in_re p {ALL}))\n(assert (str.in_re r {ALL}))\n'
               f'(assert (str.in_re p {ref[kind]}))\n(assert (str.prefixof q (str.++ p r)))\n(assert (> (str.len q) (str.len p)))\n'
               f'(assert (str.in_re q {union_all}))\n')
        failed, playbacks = [], []
        v, model, secs = decide_str(smt, ['p', 'r', 'q'], what=name)
        if v == 'sat':
            w = model.get('p', '') + model.get('r', '')
            sh = tables.real_shapes(scratch, [hexline(w)]).get(hexline(w), {})
            k, end = first_token(sh.get('lex', ''))
            reproduced = not (k == kind and end == utf8_len(model.get('p', '')))
            detail = f'text {w!r}: the comment {model.get("p")!r} should be the first token; real lexer: {sh.get("lex")}'
            desc = f'{label} [{w.encode("unicode_escape").decode()}]'
            failed.append({'name': name, 'status': 'FAILURE', 'desc': desc, 'loc': KINDS_PATH, 'func': ''})
            playbacks.append({'check_desc': desc, 'test': f'SMT model: {model!r}', 'test_name': name, 'compiled': True,
                              'panicked': reproduced, 'panic': detail, 'replay': {'ROLE': [f'{label}:{w}'], 'INPUT': [w]},
                              'native_out': detail, 'cli': reproduced, 'cli_details': {'text': w, 'real': sh}})
        results.append(make_result(name, label, 'SMT query: some pattern of the lexer matches a longer prefix than the comment the specification delimits '
                                   '(logos takes the longest match)', f'comment + following text <= {L} characters over U+0000..U+00FF', secs, failed, playbacks))
    # vacuity: the base constraints and each reference language are satisfiable
    for kind in ref:
        v, _, _ = decide_str(base + f'(assert (str.in_re s {ref[kind]}))\n(assert (str.in_re s {lang(kind)}))\n', ['s'], third=False)
        if v != 'sat':
            raise Infra(f'reference and lexer language of {kind} have no common member within the bound (vacuous)')
    results[0]['extractions'] = record
    results[0]['validated_tokens'] = validated
    results[0]['meta']['desc'] += (f' — every query decided by z3 4.8.12 and z3 5.1.0 (must agree); cvc5 1.0 consulted with a {CVC5_LIMIT}s limit: '
                                   f'{CVC5_STATS["answered"]} answers (all agreeing), {CVC5_STATS["no_answer"]} without answer')
    results[0]['meta']['desc'] += (f' — translator validation: {validated} distinct tokens lexed by the real lexer from {nfiles} repository files '
                                   f'are members of the translated language of their kind ({val_secs:.0f}s)')
    return results
