#!/usr/bin/env python3
"""Regenerate /verif/MANIFEST.json from tools/manifest_src.json (one entry per property)."""
import json, os
V = os.path.dirname(os.path.dirname(os.path.abspath(__file__)))
src = json.load(open(os.path.join(V, 'tools', 'manifest_src.json')))
props = [json.loads(l)['id'] for l in open(os.path.join(V, 'properties.jsonl'))]
checks, na = [], []
for pid in props:
    e = src['properties'].get(pid)
    if not e:
        raise SystemExit(f'{pid} missing from manifest_src.json')
    if e.get('not_applicable'):
        na.append({'property_id': pid, 'reason': e['not_applicable']})
        continue
    checks.append({
        'property_id': pid,
        'quick_cmd': f'./check {pid} --tier quick',
        'thorough_cmd': f'./check {pid} --tier thorough',
        'evidence_file': f'/verif/evidence/{pid}.json',
        'replay_cmd_template': f'./check {pid} --replay {{path}}',
        'engine': e.get('engine', 'kani-extracted'),
        'level_claimed': {'category': 'model_checking', 'text': e['text'], 'design_ref': e.get('design_ref', f'DESIGN.md §2 {pid}')},
        'level_note': e['note'],
        'technique': e['technique'],
    })
m = {
    'version': 1,
    'setup_cmd': src['setup_cmd'],
    'hooks': src['hooks'],
    'engines': src['engines'],
    'checks': checks,
    'not_applicable': na,
    'notes': src['notes'],
}
json.dump(m, open(os.path.join(V, 'MANIFEST.json'), 'w'), indent=1)
print(f'{len(checks)} checks, {len(na)} not applicable')
