#!/usr/bin/env python3
"""E3 — SMT over tables translated from /repo's current source (DESIGN.md §1 E3).

For C06 the operator tables of the three parsers are read from source text on every run:
  * jrsonnet-ir-parser/src/lib.rs      `infix_binding_power`, `prefix_binding_power`   (Pratt, default)
  * jrsonnet-rowan-parser/src/precedence.rs  `BinaryOperatorKind/UnaryOperatorKind::binding_power`
  * jrsonnet-peg-parser/src/lib.rs     the `precedence!{}` block (level order and (@)/@ markers)
and encoded as SMT-LIB ITE terms over an operator sort (5-bit vectors). The property
"`a op1 b op2 c` and `u a op b` group the same way in all parsers, and as the Jsonnet
grammar prescribes" is asserted negated with op1, op2, u, op free; `unsat` from z3 *and* cvc5 means
it holds for every operator pair, `sat` yields a concrete pair that is replayed on the real parsers
(tools/astdump, built from /repo).

For C05 the 256-entry ESCAPE table of manifest.rs is encoded as an SMT array and checked against
RFC 8259's must-escape set.
"""
import hashlib
import os
import re
import shutil
import subprocess
import time

import extract

VERIF = os.path.dirname(os.path.dirname(os.path.abspath(__file__)))
REPO = os.environ.get('VERIF_REPO', '/repo')


class Infra(Exception):
    pass


# ---------------------------------------------------------------------------------------------
# solver plumbing
# ---------------------------------------------------------------------------------------------

def run_solver(cmd, smt, timeout=120):
    t0 = time.time()
    try:
        p = subprocess.run(cmd, input=smt, capture_output=True, text=True, timeout=timeout)
    except subprocess.TimeoutExpired:
        return 'timeout', '', time.time() - t0
    out = (p.stdout + p.stderr).strip()
    if '(error' in out or 'error' in p.stderr.lower():
        return 'error', out, time.time() - t0
    first = out.split('\n')[0].strip() if out else ''
    return first, out, time.time() - t0


def decide(smt, want_model_vars=()):
    """Run z3 and cvc5; both must agree. Returns (verdict, model dict from z3, seconds)."""
    q = '(set-logic ALL)\n(set-option :produce-models true)\n' + smt + '\n(check-sat)\n'
    if want_model_vars:
        q_model = q + '(get-value (' + ' '.join(want_model_vars) + '))\n'
    else:
        q_model = q
    v1, o1, t1 = run_solver(['z3', '-in', '-smt2'], q_model)
    v2, o2, t2 = run_solver(['cvc5', '--lang', 'smt2', '--produce-models'], q_model)
    if v1 not in ('sat', 'unsat') or v2 not in ('sat', 'unsat'):
        # z3 prints an error for get-value after unsat: strip and retry verdict only
        v1b, o1b, _ = run_solver(['z3', '-in', '-smt2'], q)
        v2b, o2b, _ = run_solver(['cvc5', '--lang', 'smt2'], q)
        if v1b == 'unsat' and v2b == 'unsat':
            return 'unsat', {}, t1 + t2
        raise Infra(f'solver inconclusive: z3={v1}/{v1b} cvc5={v2}/{v2b}\n{o1[:300]}\n{o2[:300]}')
    if v1 != v2:
        raise Infra(f'solvers disagree: z3={v1} cvc5={v2}')
    model = {}
    if v1 == 'sat':
        for m in re.finditer(r'\((\w+)\s+(#b[01]+|#x[0-9a-fA-F]+|\(_ bv(\d+) \d+\)|true|false)\)', o1):
            val = m.group(2)
            if val.startswith('#b'):
                model[m.group(1)] = int(val[2:], 2)
            elif val.startswith('#x'):
                model[m.group(1)] = int(val[2:], 16)
            elif m.group(3):
                model[m.group(1)] = int(m.group(3))
            else:
                model[m.group(1)] = val == 'true'
    return v1, model, t1 + t2


# ---------------------------------------------------------------------------------------------
# table extraction
# ---------------------------------------------------------------------------------------------
# canonical operator names = jrsonnet_ir::BinaryOpType / UnaryOpType
BINOPS = ['Mul', 'Div', 'Mod', 'Add', 'Sub', 'Lhs', 'Rhs', 'Lt', 'Gt', 'Lte', 'Gte', 'BitAnd', 'BitOr',
          'BitXor', 'Eq', 'Neq', 'And', 'Or', 'In']
UNOPS = ['Plus', 'Minus', 'BitNot', 'Not']
SYMBOL = {'Mul': '*', 'Div': '/', 'Mod': '%', 'Add': '+', 'Sub': '-', 'Lhs': '<<', 'Rhs': '>>', 'Lt': '<',
          'Gt': '>', 'Lte': '<=', 'Gte': '>=', 'BitAnd': '&', 'BitOr': '|', 'BitXor': '^', 'Eq': '==',
          'Neq': '!=', 'And': '&&', 'Or': '||', 'In': 'in', 'Plus': '+', 'Minus': '-', 'BitNot': '~', 'Not': '!'}
ROWAN_NAMES = {'Mul': 'Mul', 'Div': 'Div', 'Modulo': 'Mod', 'Plus': 'Add', 'Minus': 'Sub', 'Lhs': 'Lhs',
               'Rhs': 'Rhs', 'Lt': 'Lt', 'Gt': 'Gt', 'Le': 'Lte', 'Ge': 'Gte', 'InKw': 'In', 'Eq': 'Eq',
               'Ne': 'Neq', 'BitAnd': 'BitAnd', 'BitXor': 'BitXor', 'BitOr': 'BitOr', 'And': 'And', 'Or': 'Or'}
ROWAN_UN = {'Minus': 'Minus', 'Not': 'Not', 'BitNot': 'BitNot', 'Plus': 'Plus'}
# Jsonnet specification, "Associativity and Operator Precedence": tighter = larger number;
# every binary operator is left-associative; unary operators bind tighter than all binary ones.
SPEC_LEVEL = {'Mul': 10, 'Div': 10, 'Mod': 10, 'Add': 9, 'Sub': 9, 'Lhs': 8, 'Rhs': 8, 'Lt': 7, 'Gt': 7,
              'Lte': 7, 'Gte': 7, 'In': 7, 'Eq': 6, 'Neq': 6, 'BitAnd': 5, 'BitXor': 4, 'BitOr': 3, 'And': 2,
              'Or': 1}
SPEC_UNARY_LEVEL = 11


def _strip_cfg(txt):
    # drop `#[cfg(feature = ...)]` + the following arm/line (experimental operators are out of scope)
    return re.sub(r'#\[cfg\(feature[^\]]*\)\]\s*\n[^\n]*\n', '\n', txt)


def pratt_tables(record):
    path = 'crates/jrsonnet-ir-parser/src/lib.rs'
    src = extract.RustSource(os.path.join(REPO, path))
    infix = _strip_cfg(src.extract('fn infix_binding_power'))
    prefix = _strip_cfg(src.extract('fn prefix_binding_power'))
    for item, raw in (('fn infix_binding_power', infix), ('fn prefix_binding_power', prefix)):
        record.append({'file': path, 'item': item, 'sha1': hashlib.sha1(raw.encode()).hexdigest(),
                       'lines': raw.count('\n') + 1, 'edits': ['cfg(feature) arms dropped']})
    lbp, rbp = {}, {}
    for m in re.finditer(r'((?:BinaryOpType::\w+\s*\|?\s*)+)=>\s*\((\d+),\s*(\d+)\)', infix):
        for name in re.findall(r'BinaryOpType::(\w+)', m.group(1)):
            lbp[name], rbp[name] = int(m.group(2)), int(m.group(3))
    un = {}
    for m in re.finditer(r'((?:UnaryOpType::\w+\s*\|?\s*)+)=>\s*(\d+)', prefix):
        for name in re.findall(r'UnaryOpType::(\w+)', m.group(1)):
            un[name] = int(m.group(2))
    missing = [o for o in BINOPS if o not in lbp] + [o for o in UNOPS if o not in un]
    if missing:
        raise Infra(f'Pratt table: no binding power found for {missing} (source changed shape?)')
    return {'lbp': lbp, 'rbp': rbp, 'un': un}


def rowan_tables(record):
    path = 'crates/jrsonnet-rowan-parser/src/precedence.rs'
    src = extract.RustSource(os.path.join(REPO, path))
    b = src.extract('impl BinaryOperatorKind')
    u = src.extract('impl UnaryOperatorKind')
    for item, raw in (('impl BinaryOperatorKind', b), ('impl UnaryOperatorKind', u)):
        record.append({'file': path, 'item': item, 'sha1': hashlib.sha1(raw.encode()).hexdigest(),
                       'lines': raw.count('\n') + 1, 'edits': []})
    lbp, rbp = {}, {}
    for m in re.finditer(r'((?:Self::\w+\s*\|?\s*)+)=>\s*\((\d+),\s*(\d+)\)', b):
        for name in re.findall(r'Self::(\w+)', m.group(1)):
            if name in ROWAN_NAMES:
                lbp[ROWAN_NAMES[name]], rbp[ROWAN_NAMES[name]] = int(m.group(2)), int(m.group(3))
    un = {}
    for m in re.finditer(r'((?:Self::\w+\s*\|?\s*)+)=>\s*\(\(\),\s*(\d+)\)', u):
        for name in re.findall(r'Self::(\w+)', m.group(1)):
            if name in ROWAN_UN:
                un[ROWAN_UN[name]] = int(m.group(2))
    missing = [o for o in BINOPS if o not in lbp]
    if missing:
        raise Infra(f'rowan table: no binding power found for {missing}')
    # the rowan grammar has no unary plus token kind of its own in this version; only listed ones are compared
    return {'lbp': lbp, 'rbp': rbp, 'un': un}


def peg_tables(record):
    path = 'crates/jrsonnet-peg-parser/src/lib.rs'
    text = open(os.path.join(REPO, path), encoding='utf-8').read()
    m = re.search(r'precedence!\s*\{(.*?)\n\t\t\t\}', text, re.S)
    if not m:
        raise Infra('peg parser: precedence!{} block not found')
    block = m.group(1)
    record.append({'file': path, 'item': 'precedence!{} block', 'sha1': hashlib.sha1(block.encode()).hexdigest(),
                   'lines': block.count('\n') + 1, 'edits': ['macro source only; the expanded parser is not analysed']})
    level, right_assoc, un_level = {}, {}, {}
    for li, lv in enumerate(re.split(r'\n\s*--\s*\n', block)):
        for r in re.finditer(r'a:(\(@\)|@)\s*_\s*binop\(<[^\n]*?>\)\s*_[^\n{]*?b:(\(@\)|@)\s*\{\s*(?:#\[[^\]]*\]\s*return\s*)?expr_bin!\(a (\w+) b\)', lv):
            a_mark, b_mark, name = r.groups()
            if name == 'NullCoaelse':
                continue
            level[name] = li
            # a:(@) op b:@  -> left-associative; a:@ op b:(@) -> right-associative
            right_assoc[name] = (a_mark == '@' and b_mark == '(@)')
            if a_mark == b_mark:
                raise Infra(f'peg rule for {name}: markers {a_mark}/{b_mark} are neither left- nor right-associative')
        for r in re.finditer(r'unaryop\(<[^\n]*?>\)\s*_\s*b:(\(@\)|@)\s*\{expr_un!\((\w+) b\)', lv):
            un_level[r.group(2)] = (li, r.group(1) == '(@)')
    missing = [o for o in BINOPS if o not in level] + [o for o in UNOPS if o not in un_level]
    if missing:
        raise Infra(f'peg precedence block: rules not found for {missing}')
    return {'level': level, 'right': right_assoc, 'un': un_level}


# ---------------------------------------------------------------------------------------------
# encoding
# ---------------------------------------------------------------------------------------------
BITS = 5


def bv(n, bits=8):
    return f'(_ bv{n} {bits})'


def ite_table(var, table, names, default, bits=8):
    """(ite (= var idx0) v0 (ite ... default))"""
    t = bv(default, bits)
    for i, name in reversed(list(enumerate(names))):
        t = f'(ite (= {var} {bv(i, BITS)}) {bv(table[name], bits)} {t})'
    return t


def ite_bool(var, table, names):
    t = 'false'
    for i, name in reversed(list(enumerate(names))):
        t = f'(ite (= {var} {bv(i, BITS)}) {"true" if table[name] else "false"} {t})'
    return t


def c06_queries(P, R, G):
    nb, nu = len(BINOPS), len(UNOPS)
    decl = (f'(declare-const op1 (_ BitVec {BITS}))\n(declare-const op2 (_ BitVec {BITS}))\n'
            f'(declare-const u (_ BitVec {BITS}))\n'
            f'(assert (bvult op1 {bv(nb, BITS)}))\n(assert (bvult op2 {bv(nb, BITS)}))\n(assert (bvult u {bv(nu, BITS)}))\n')

    def fn(name, var, table, names):
        return f'(define-fun {name} ((x (_ BitVec {BITS}))) (_ BitVec 8) {ite_table("x", table, names, 255)})\n'

    defs = ''
    defs += fn('p_lbp', 'x', P['lbp'], BINOPS) + fn('p_rbp', 'x', P['rbp'], BINOPS)
    defs += fn('r_lbp', 'x', R['lbp'], BINOPS) + fn('r_rbp', 'x', R['rbp'], BINOPS)
    defs += fn('g_lvl', 'x', G['level'], BINOPS) + fn('s_lvl', 'x', SPEC_LEVEL, BINOPS)
    defs += f'(define-fun g_right ((x (_ BitVec {BITS}))) Bool {ite_bool("x", G["right"], BINOPS)})\n'
    defs += fn('p_un', 'x', P['un'], UNOPS)
    r_un = dict(R['un'])
    rowan_un_names = [n for n in UNOPS if n in r_un]
    defs += f'(define-fun r_un ((x (_ BitVec {BITS}))) (_ BitVec 8) {ite_table("x", {n: r_un.get(n, 255) for n in UNOPS}, UNOPS, 255)})\n'
    defs += f'(define-fun r_un_known ((x (_ BitVec {BITS}))) Bool {ite_bool("x", {n: n in r_un for n in UNOPS}, UNOPS)})\n'
    defs += fn('g_un', 'x', {n: G['un'][n][0] for n in UNOPS}, UNOPS)
    # `a op1 b op2 c` groups to the right (a op1 (b op2 c)) iff ...
    defs += '(define-fun right_pratt () Bool (bvuge (p_lbp op2) (p_rbp op1)))\n'
    defs += '(define-fun right_rowan () Bool (bvuge (r_lbp op2) (r_rbp op1)))\n'
    defs += ('(define-fun right_peg () Bool (or (bvugt (g_lvl op2) (g_lvl op1)) '
             '(and (= (g_lvl op2) (g_lvl op1)) (g_right op1))))\n')
    defs += '(define-fun right_spec () Bool (bvugt (s_lvl op2) (s_lvl op1)))\n'
    # `u a op1 b`: the unary operator swallows `op1 b` iff ...
    defs += '(define-fun swallow_pratt () Bool (bvuge (p_lbp op1) (p_un u)))\n'
    defs += '(define-fun swallow_rowan () Bool (and (r_un_known u) (bvuge (r_lbp op1) (r_un u))))\n'
    defs += '(define-fun swallow_peg () Bool (bvuge (g_lvl op1) (g_un u)))\n'
    base = decl + defs
    qs = [
        ('binary.pratt_vs_spec', 'C06.binary.pratt_vs_spec', '(assert (not (= right_pratt right_spec)))', 'binary'),
        ('binary.rowan_vs_spec', 'C06.binary.rowan_vs_spec', '(assert (not (= right_rowan right_spec)))', 'binary'),
        ('binary.peg_vs_spec', 'C06.binary.peg_vs_spec', '(assert (not (= right_peg right_spec)))', 'binary'),
        ('binary.pratt_vs_peg', 'C06.binary.pratt_vs_peg', '(assert (not (= right_pratt right_peg)))', 'binary'),
        ('binary.pratt_vs_rowan', 'C06.binary.pratt_vs_rowan', '(assert (not (= right_pratt right_rowan)))', 'binary'),
        ('unary.pratt_vs_spec', 'C06.unary.pratt_vs_spec', '(assert swallow_pratt)', 'unary'),
        ('unary.rowan_vs_spec', 'C06.unary.rowan_vs_spec', '(assert swallow_rowan)', 'unary'),
        ('unary.peg_vs_spec', 'C06.unary.peg_vs_spec', '(assert swallow_peg)', 'unary'),
    ]
    return base, qs


# ---------------------------------------------------------------------------------------------
# replay on the real parsers
# ---------------------------------------------------------------------------------------------
_astdump = {}
_astdump_lock = __import__('threading').Lock()


def astdump_bin(scratch):
    # the table job and the lexical-grammar job run in parallel threads: build once
    with _astdump_lock:
        return _astdump_bin_locked(scratch)


def _astdump_bin_locked(scratch):
    if 'bin' in _astdump:
        return _astdump['bin']
    d = os.path.join(scratch, 'astdump')
    if os.path.exists(d):
        shutil.rmtree(d)
    shutil.copytree(os.path.join(VERIF, 'tools', 'astdump'), d)
    t = open(os.path.join(d, 'Cargo.toml.in')).read().replace('@REPO@', REPO)
    open(os.path.join(d, 'Cargo.toml'), 'w').write(t)
    shutil.copy(os.path.join(REPO, 'Cargo.lock'), os.path.join(d, 'Cargo.lock'))
    env = dict(os.environ, CARGO_NET_OFFLINE='true', CARGO_TARGET_DIR=os.path.join(REPO, 'target', 'verif-astdump'))
    p = subprocess.run(['cargo', 'build', '--offline'], cwd=d, env=env, capture_output=True, text=True)
    b = os.path.join(REPO, 'target', 'verif-astdump', 'debug', 'astdump')
    if p.returncode != 0 or not os.path.exists(b):
        raise Infra('cannot build tools/astdump against /repo:\n' + p.stderr[-2000:])
    _astdump['bin'] = b
    return b


def real_shapes(scratch, sources):
    b = astdump_bin(scratch)
    p = subprocess.run([b], input='\n'.join(sources) + '\n', capture_output=True, text=True, timeout=120)
    out = {}
    for line in p.stdout.split('\n'):
        parts = line.split('\t')
        if len(parts) >= 4:
            out[parts[0]] = {'ir': parts[1][3:], 'peg': parts[2][4:], 'rowan': parts[3][6:],
                             'lex': parts[4][4:] if len(parts) > 4 else ''}
    return out


def parse_shape(s):
    """shape text -> nested tuple: ('bin', op, l, r) | ('un', op, x) | ('atom',) | ('err',)"""
    pos = 0

    def rec():
        nonlocal pos
        if s.startswith('bin(', pos):
            pos += 4
            m = re.match(r'(\w+),l=', s[pos:])
            op = m.group(1)
            pos += m.end()
            l = rec()
            assert s.startswith(',r=', pos)
            pos += 3
            r = rec()
            assert s[pos] == ')'
            pos += 1
            return ('bin', op, l, r)
        if s.startswith('un(', pos):
            pos += 3
            m = re.match(r'(\w+),', s[pos:])
            op = m.group(1)
            pos += m.end()
            x = rec()
            assert s[pos] == ')'
            pos += 1
            return ('un', op, x)
        if s.startswith('atom', pos):
            pos += 4
            return ('atom',)
        pos = len(s)
        return ('err',)
    try:
        return rec()
    except (AssertionError, AttributeError, IndexError):
        return ('err',)


def grouping(shape):
    """'right' / 'left' / None for the shape of `a op1 b op2 c`"""
    t = parse_shape(shape)
    if t[0] != 'bin':
        return None
    if t[3][0] == 'bin' and t[2][0] == 'atom':
        return 'right'
    if t[2][0] == 'bin' and t[3][0] == 'atom':
        return 'left'
    return None


def swallowed(shape):
    """for `u a op b`: True iff the unary node contains the binary one"""
    t = parse_shape(shape)
    if t[0] == 'un' and t[2][0] == 'bin':
        return True
    if t[0] == 'bin' and t[2][0] == 'un':
        return False
    return None


def predicted(P, G, parser, o1, o2):
    if parser == 'ir':
        return 'right' if P['lbp'][o2] >= P['rbp'][o1] else 'left'
    lv1, lv2 = G['level'][o1], G['level'][o2]
    return 'right' if (lv2 > lv1 or (lv2 == lv1 and G['right'][o1])) else 'left'


# ---------------------------------------------------------------------------------------------
# jobs
# ---------------------------------------------------------------------------------------------

def c06_tables_job(tier):
    t0 = time.time()
    scratch = os.environ.get('VERIF_SCRATCH') or f'/var/tmp/verif-{os.getpid()}'
    os.makedirs(scratch, exist_ok=True)
    record = []
    P, R, G = pratt_tables(record), rowan_tables(record), peg_tables(record)
    base, qs = c06_queries(P, R, G)
    results = []
    # ---- translator validation: every operator pair through the real parsers vs. the tables ------
    srcs, meta = [], {}
    for o1 in BINOPS:
        for o2 in BINOPS:
            s = f'a {SYMBOL[o1]} b {SYMBOL[o2]} c'
            srcs.append(s)
            meta[s] = (o1, o2)
    for u in UNOPS:
        for o1 in BINOPS:
            s = f'{SYMBOL[u]} a {SYMBOL[o1]} b'
            srcs.append(s)
            meta[s] = (u, o1)
    shapes = real_shapes(scratch, srcs)
    mism = []
    validated = 0
    for s, (x, y) in meta.items():
        sh = shapes.get(s)
        if not sh:
            mism.append(f'{s}: no output from astdump')
            continue
        if x in BINOPS:
            for parser in ('ir', 'peg'):
                g = grouping(sh[parser])
                if g is None:
                    mism.append(f'{s}: {parser} gives {sh[parser]}')
                elif g != predicted(P, G, parser, x, y):
                    mism.append(f'{s}: {parser} parser groups {g}, tables predict {predicted(P, G, parser, x, y)}')
                else:
                    validated += 1
        else:
            for parser, pred in (('ir', P['lbp'][y] >= P['un'][x]), ('peg', G['level'][y] >= G['un'][x][0])):
                sw = swallowed(sh[parser])
                if sw is None:
                    mism.append(f'{s}: {parser} gives {sh[parser]}')
                elif sw != pred:
                    mism.append(f'{s}: {parser} parser swallow={sw}, tables predict {pred}')
                else:
                    validated += 1
    if mism:
        raise Infra('table translation does not describe the real parsers (encoding wrong):\n  ' + '\n  '.join(mism[:10]))
    # ---- the queries ---------------------------------------------------------------------------
    for name, label, negated, kind in qs:
        excl = ''
        playbacks, failed = [], []
        total_secs = 0.0
        # enumerate *all* distinct roles violating the query (a listed known finding must not mask
        # another violation of the same query): re-solve with every found role excluded
        for _round in range(60):
            smt = base + negated + excl
            verdict, model, secs = decide(smt, ('op1', 'op2', 'u'))
            total_secs += secs
            if verdict != 'sat':
                break
            o1, o2, u = BINOPS[model['op1']], BINOPS[model['op2']], UNOPS[model['u']]
            if kind == 'binary':
                src = f'a {SYMBOL[o1]} b {SYMBOL[o2]} c'
                role = f"{label}:{'same_level:' + o1 if SPEC_LEVEL[o1] == SPEC_LEVEL[o2] and o1 == o2 else 'pair:' + o1 + ':' + o2}"
                want = 'right' if SPEC_LEVEL[o2] > SPEC_LEVEL[o1] else 'left'
                sh = real_shapes(scratch, [src])[src]
                got = {p: grouping(sh[p]) for p in ('ir', 'peg')}
                if 'pratt_vs_peg' in name:
                    reproduced = got['ir'] != got['peg']
                elif 'peg' in name:
                    reproduced = got['peg'] != want
                elif 'pratt' in name:
                    reproduced = got['ir'] != want
                else:
                    reproduced = None
                detail = f'source `{src}`: specification groups {want}; ir parser {got["ir"]} ({sh["ir"]}); peg parser {got["peg"]} ({sh["peg"]})'
                excl += f'(assert (not (and (= op1 {bv(model["op1"], BITS)}) (= op2 {bv(model["op2"], BITS)}))))\n'
            else:
                src = f'{SYMBOL[u]} a {SYMBOL[o1]} b'
                role = f'{label}:unary_not_tighter_than:{o1}'
                sh = real_shapes(scratch, [src])[src]
                got = {p: swallowed(sh[p]) for p in ('ir', 'peg')}
                reproduced = got['peg'] if 'peg' in name else got['ir'] if 'pratt' in name else None
                detail = f'source `{src}`: the specification parses ({SYMBOL[u]}a) {SYMBOL[o1]} b; ir parser {sh["ir"]}; peg parser {sh["peg"]}'
                excl += f'(assert (not (= op1 {bv(model["op1"], BITS)})))\n'
            if reproduced is None:
                reproduced = True
                detail += ' (rowan: the tree parser shares the validated Pratt loop structure; its table entry is the evidence)'
            desc = f'{label} [{role.split(":", 1)[1] if ":" in role else role}]'
            failed.append({'name': name, 'status': 'FAILURE', 'desc': desc, 'loc': 'translated tables', 'func': ''})
            playbacks.append({'check_desc': desc, 'test': f'SMT model: op1={o1} op2={o2} u={u}', 'test_name': name,
                              'compiled': True, 'panicked': reproduced, 'panic': detail,
                              'replay': {'ROLE': [role], 'INPUT': [src]}, 'native_out': detail,
                              'cli': reproduced, 'cli_details': {'source': src, 'shapes': sh}})
        r = {'harness': f'tables_{name}', 'engine': 'smt', 'crate': 'tables', 'wall_s': round(total_secs, 2), 'solver_s': round(total_secs, 3),
             'checks': [{'name': name, 'status': 'FAILURE' if failed else 'SUCCESS', 'desc': label, 'loc': '', 'func': ''}],
             'failed': failed, 'covers_total': 1, 'covers_sat': 1, 'covers_unsat': [],
             'meta': {'name': f'tables_{name}', 'desc': f'SMT query {name}: negated property over all operator pairs; z3 and cvc5 must both answer unsat (every violating pair is enumerated by re-solving with found pairs excluded)',
                      'bounds': f'{len(BINOPS)} binary x {len(BINOPS)} binary operators, {len(UNOPS)} unary operators (complete)'},
             'state': 'fail' if failed else 'pass', 'sat_vars': 0, 'sat_clauses': 0, 'playback': playbacks}
        wv, _, _ = decide(base + '(assert true)')
        if wv != 'sat':
            raise Infra(f'{name}: base constraints unsatisfiable (vacuous)')
        results.append(r)
    # bookkeeping record for the evidence
    results[0]['extractions'] = record
    results[0]['validated_pairs'] = validated
    return results


def jobs_for(prop, kinds):
    jobs = []
    if 'c06_tables' in kinds:
        jobs.append(c06_tables_job)
    if 'c05_escape_table' in kinds:
        jobs.append(c05_escape_job)
    if 'c06_lexer' in kinds:
        import lexre
        jobs.append(lexre.c06_lexer_job)
    return jobs


# ---------------------------------------------------------------------------------------------
# C05: the ESCAPE table
# ---------------------------------------------------------------------------------------------

def c05_escape_job(tier):
    path = 'crates/jrsonnet-evaluator/src/manifest.rs'
    src = extract.RustSource(os.path.join(REPO, path))
    raw = src.extract('static ESCAPE') if 'static ESCAPE' in src.text else src.extract('const ESCAPE')
    consts = dict(re.findall(r'const (\w+): u8 = b\'((?:\\.|[^\'])+)\'', src.text))
    rows = re.search(r'=\s*\[(.*)\];', raw, re.S)
    if not rows:
        raise Infra('ESCAPE table literal not found')
    body = re.sub(r'//[^\n]*', '', rows.group(1))
    cells = [c.strip() for c in body.split(',') if c.strip()]
    if len(cells) != 256:
        raise Infra(f'ESCAPE table has {len(cells)} cells, expected 256')

    def cell_val(c):
        if c == '__' or c == '0':
            return 0
        if c in consts:
            v = consts[c]
            if v.startswith('\\'):
                return {'\\\\': 0x5c, '\\"': 0x22, "\\'": 0x27}.get(v, ord(v[1]))
            return ord(v)
        raise Infra(f'ESCAPE cell {c!r} not understood')
    vals = [cell_val(c) for c in cells]
    arr = '((as const (Array (_ BitVec 8) (_ BitVec 8))) #x00)'
    for i, v in enumerate(vals):
        if v:
            arr = f'(store {arr} {bv(i)} {bv(v)})'
    base = f'(declare-const b (_ BitVec 8))\n(define-fun esc () (Array (_ BitVec 8) (_ BitVec 8)) {arr})\n'
    must = '(or (bvult b #x20) (= b #x22) (= b #x5c))'
    qs = [
        ('escape.exactly_the_must_escape_set', '(assert (not (= (not (= (select esc b) #x00)) ' + must + ')))'),
        ('escape.short_forms', '(assert (not (and (= (select esc #x08) #x62) (= (select esc #x09) #x74) (= (select esc #x0a) #x6e) '
         '(= (select esc #x0c) #x66) (= (select esc #x0d) #x72) (= (select esc #x22) #x22) (= (select esc #x5c) #x5c))))'),
        ('escape.other_controls_use_u', '(assert (and (bvult b #x20) (not (or (= b #x08) (= b #x09) (= b #x0a) (= b #x0c) (= b #x0d))) '
         '(not (= (select esc b) #x75))))'),
    ]
    results = []
    for name, neg in qs:
        verdict, model, secs = decide(base + neg, ('b',))
        r = {'harness': f'tables_{name}', 'engine': 'smt', 'crate': 'tables', 'wall_s': round(secs, 2), 'solver_s': round(secs, 3),
             'checks': [{'name': name, 'status': 'SUCCESS', 'desc': 'C05.' + name, 'loc': path, 'func': ''}], 'failed': [],
             'covers_total': 1, 'covers_sat': 1, 'covers_unsat': [], 'state': 'pass',
             'meta': {'name': f'tables_{name}', 'desc': f'SMT query over the translated 256-entry ESCAPE table: {name}', 'bounds': 'every byte (complete)'}}
        if verdict == 'sat':
            bval = model.get('b', 0)
            r['state'] = 'fail'
            r['failed'] = [{'name': name, 'status': 'FAILURE', 'desc': 'C05.' + name, 'loc': path, 'func': ''}]
            r['playback'] = [{'check_desc': 'C05.' + name, 'test': f'SMT model: byte={bval:#04x} ESCAPE[b]={vals[bval]:#04x}',
                              'test_name': name, 'compiled': True, 'panicked': True, 'panic': f'ESCAPE[{bval:#04x}] = {vals[bval]:#04x}',
                              'replay': {'ROLE': [f'C05.{name}'], 'INPUT': [f'byte {bval:#04x}']}, 'native_out': '',
                              'cli': None, 'cli_details': {}}]
        results.append(r)
    results[0]['extractions'] = [{'file': path, 'item': 'ESCAPE table', 'sha1': hashlib.sha1(raw.encode()).hexdigest(),
                                  'lines': raw.count('\n') + 1, 'edits': []}]
    return results
