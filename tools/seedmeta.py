#!/usr/bin/env python3
"""Writes /verif/seeded/<id>/meta.json from the table below (what each seeded change breaks, what it needs
to manifest, what was run and what the checks said)."""
import json, os
V = os.path.dirname(os.path.dirname(os.path.abspath(__file__)))
T = {
 'C08_1': ('C08', 'SliceArray bounds check compares the mapped index with `>` against the exclusive end', 'index == length of a slice that ends before its array and whose step divides the span (`a[0:2][2]`)', './check C08 --only d1_slice', 'caught: VIOLATION d1_slice_range_oob / d1_slice_eager_oob C08.get.oob, replayed on the CLI'),
 'C08_2': ('C08', 'RangeArray::is_empty uses start >= end', 'a one-element range reaching ArrValue::extended (`std.range(3,3) + [1]`)', './check C08 --only "d0_range|d1_extend_copy_len"', 'caught: VIOLATION d0_range_len C08.is_empty (after adding the concatenation replay programs; the first run reported it as kernel-only, exit 2)'),
 'C09_1': ('C09', 'MIN_SAFE_INTEGER parenthesis slip: -2^53 becomes a safe integer', 'an operand exactly -9007199254740992 of a bitwise operator or shift', './check C09 --only "num_bit|num_sh"', 'caught: VIOLATION num_bitand/num_bitor/num_bitxor C09.bit*, num_shl/num_shr C09.sh*.operands'),
 'C09_2': ('C09', '<< overflow test replaced by checked_shl (only rejects counts >= 64)', 'a left shift whose mathematical result leaves i64 (`1 << 63`)', './check C09 --only num_shl', 'caught: VIOLATION num_shl C09.shl.overflow'),
 'C11_1': ('C11', 'findSubstr guard and max_pos computed in code points, loop compares byte offsets', 'multi-byte characters before a match near the end of the text', './check C11 --only find_substr', 'NOT DECIDED (exit 2): the changed code calls chars().count(), which CBMC does not finish within 600 s even for 3-byte texts; reported as undecided, never as held'),
 'C11_2': ('C11', 'parse_nat decimal-digit filter removed', 'one of the characters : ; < = > ? in a hexadecimal string', './check C11 --only parse_hex', 'caught: VIOLATION parse_hex C11.parseHex (7 s)'),
 'C12_1': ('C12', 'render_hexadecimal passes prefix_in_padding = true', '%x / %X with # and a precision larger than the digit count', './check C12 --only "^int_hex$"', 'caught: VIOLATION int_hex C12.int.len / C12.int.text'),
 'C12_2': ('C12', '`*` width and `.*` precision consumed in the wrong order in format_arr', 'one code with both stars and two different star values', './check C12 --tier thorough --only consume_star_dotstar_d', 'quick tier: not covered (format_arr harnesses are thorough-tier: parse_codes alone needs 13 min); thorough harness consume_star_dotstar_d added for it'),
 'C02_1': ('C02', '`break` dropped after the plain definition below a `+:` in get_idx_uncached', 'at least three layers defining the field, `+:` above a plain definition that shadows another one', './check C02 --only chain3_get', 'caught: VIOLATION chain3_get C02.get (64 s); the first run ended exit 2 because the replay-printing code did not compile (fixed, VERIF_CHECK_PLAYBACK added)'),
 'C02_2': ('C02', '`:::` arm of fields_visibility only unhides when nothing was recorded yet', 'layers `::`, `:::`, `:` bottom to top', './check C02 --only "chain3_fields|chain3_vis"', 'detected by chain3_fields C13.fields.count (587 s); the playback re-run exhausted the 14 GB cap (exit 2) -> playback now gets 35 GB and twice the time'),
 'C06_1': ('C06', '<< >> given the binding power of + - in the default parser', 'a shift before an unparenthesised + or -', './check C06', 'caught: 12 VIOLATION lines (pairs Lhs/Rhs x Add/Sub in pratt_vs_spec, pratt_vs_peg, pratt_vs_rowan), 6 s'),
 'C06_2': ('C06', '`in` moved to the == != level of the PEG precedence block', '== or != or < next to `in`', './check C06', 'caught: 12 VIOLATION lines (peg_vs_spec, pratt_vs_peg), 6 s'),
 'C05_1': ('C05', 'ESCAPE[0x1F] cleared', 'a string or key containing U+001F', './check C05', 'caught: SMT table queries (exactly_the_must_escape_set, other_controls_use_u) and escape_roundtrip_2/3 C05.escape.controls'),
 'C05_2': ('C05', 'HEX_DIGITS d and e transposed', 'U+000E, U+001D or U+001E in a string', './check C05', 'caught: VIOLATION escape_roundtrip_2/3 C05.escape.roundtrip (the table queries hold: the table is untouched)'),
 'C14_1': ('C14', 'bare_allowed accepts `:` (range end off by one)', 'a TOML key containing `:`', './check C14 --only toml_key', 'caught: VIOLATION toml_key C14.toml.bare_charset (173 s)'),
 'C14_2': ('C14', 'bare_safe hexadecimal branch requires len > 3', 'a three-character key 0x<digit>', './check C14 --only yaml_bare_safe_3', 'caught: VIOLATION yaml_bare_safe_3 C14.yaml.not_special (575 s), after the harness was split per concrete key length (first runs: unwinding bound too small, then the 900 s cap)'),
 'C10_1': ('C10', 'setInter pushes the element of b on equal keys', 'a key function mapping two different elements to one key', './check C10 --only set_inter', 'caught: VIOLATION set_inter C10.set.elements (85 s); the first run ended exit 2 because the driver replayed a cover test instead of the failing assertion (fixed)'),
 'C03_1': ('C03', 'MappedArray::get puts a failed element back to Waiting instead of caching the error', 'a second read of an element whose first evaluation failed', './check C03', 'caught: VIOLATION mapped_array_once C03.map.once (13 s, after splitting the re-entrant case into its own harness; before the split the harness hit its 900 s cap)'),
 'C18_1': ('C18', 'check_utf8 sets the cached flag whatever the validation result', 'invalid UTF-8 bytes, kept alive, validated twice', './check C18 --only inner_history_bytes', 'caught: VIOLATION inner_history_bytes C18.inner.check_utf8 (253 s)'),
 'C04_1': ('C04', 'check_depth increments before comparing and does not undo it on the error path', 'a reported stack overflow followed by further evaluation on the same thread', './check C16', 'caught: VIOLATION stack_lifo_history C16.stack.restored (252 s); first run exit 2: cover test replayed instead of the failing assertion (driver fixed)'),
 'R3A_1': ('C01', 'evaluate_binary_op_special gets a short-circuit arm `(Bool(true), And, eb) => evaluate(eb)`', '`true && <non-boolean>`', './check C01 --only logic_', 'missed by the first version (only evaluate_binary_op_normal was extracted); the logic_and / logic_or harnesses over evaluate_binary_op_special were added for it -> caught: VIOLATION logic_and C01.logic.type (85 s)'),
 'R3A_2': ('C13', 'primitive_equals rejects when exactly one argument is a function (&& -> ||)', 'std.primitiveEquals(function, non-function)', './check C13 --only equality_table', 'detected: equality_table C13.primitiveEquals.kinds (194 s); first run exit 2 because the replay programs only exercised `==` (the real binary agreed with the oracle) -> a std.primitiveEquals replay program was added'),
 'R3A_3': ('C09', '~ converts its operand with floor instead of truncation', 'a negative operand with a fractional part', './check C09 --only num_unary', 'caught: VIOLATION num_unary C09.bitnot (4 s)'),
 'R3B_1': ('C08', 'ArrValue::slice flattens a slice of a slice into one view (downcast), wrong for a negative start off the first slice\'s grid', 'slice of a slice, first step > 1 with (to-from) % step != 0, second start negative', './check C08 --only d2_slice_of_slice', 'NOT DECIDED (exit 2): the change restructures ArrValue::slice (downcast of the receiver to SliceArray through as_any); the extracted text no longer compiles against the per-level stand-ins -> infrastructure error with the compiler message, never a pass'),
 'R3B_2': ('C02', 'get_idx_uncached: `skip = new_skip + 1` instead of max(skip, ...)', 'two nested key removals with the inner one reaching less far, then a read', './check C02 --only chain3_get', 'caught: VIOLATION chain3_get C02.get (72 s)'),
 'R3B_3': ('C12', 'render_integer counts the blank flag as its own column', 'zero flag + blank flag + (negative value or + flag)', './check C12 --only "^int_decimal$"', 'caught: VIOLATION int_decimal C12.int.text (79 s)'),
}
for sid, (prop, what, needs, ran, result) in T.items():
    d = os.path.join(V, 'seeded', sid)
    if not os.path.isdir(d):
        continue
    confirm = ''
    cp = os.path.join(d, 'confirm.txt')
    if os.path.exists(cp):
        confirm = open(cp).read().strip()
    override = os.path.join(d, 'result.txt')
    if os.path.exists(override):
        result = open(override).read().strip()
    json.dump({'seed': sid, 'property': prop, 'change': what, 'needs_to_manifest': needs,
               'produced_by': 'independent sub-agent given only the property text and a scratch worktree',
               'confirmed_in_scratch_worktree': confirm, 'check_command': 'tools/seedtest.sh seeded/%s/patch.diff %s' % (sid, ran.replace('./check ', '')),
               'check_result': result}, open(os.path.join(d, 'meta.json'), 'w'), indent=1)
print('ok')
