//! Replay helper for the SMT checks (C06): parses each stdin line with the repo's real parsers and
//! prints the *shape* of the resulting tree, so that the grouping predicted from the translated
//! binding-power tables can be compared with what the linked parsers do.
//!
//! Output per line:  <src> \t ir=<shape> \t peg=<shape> \t rowan=<ok|errors> \t lex=<KIND@start-end,...>
//! A line `hex:<hex digits>` denotes the UTF-8 text with those bytes (for texts containing newlines etc.);
//! the `lex=` field is the token sequence of the real jrsonnet-lexer (E3 lexical-grammar replay).
//! shape: `bin(OP,l=<shape>,r=<shape>)`, `un(OP,<shape>)`, `atom`, `err`.
use jrsonnet_ir::{Expr, Source};
use std::io::BufRead;

fn shape(e: &Expr) -> String {
    match e {
        Expr::BinaryOp(b) => format!("bin({:?},l={},r={})", b.op, shape(&b.lhs), shape(&b.rhs)),
        Expr::UnaryOp(op, v) => format!("un({:?},{})", op, shape(v)),
        _ => "atom".to_string(),
    }
}
fn main() {
    let stdin = std::io::stdin();
    for line in stdin.lock().lines() {
        let orig = line.unwrap();
        let line = match orig.strip_prefix("hex:") {
            Some(h) => {
                let bytes: Vec<u8> = (0..h.len() / 2).map(|i| u8::from_str_radix(&h[2 * i..2 * i + 2], 16).unwrap()).collect();
                String::from_utf8(bytes).unwrap()
            }
            None => orig.clone(),
        };
        let lexed: Vec<String> = jrsonnet_lexer::Lexer::new(&line)
            .map(|l| format!("{:?}@{}-{}", l.kind, l.range.0, l.range.1))
            .collect();
        let src = Source::new_virtual("replay".into(), line.as_str().into());
        let ir = jrsonnet_ir_parser::parse(&line, &jrsonnet_ir_parser::ParserSettings { source: src.clone() });
        let peg = jrsonnet_peg_parser::parse(&line, &jrsonnet_peg_parser::ParserSettings { source: src });
        let errors = match std::panic::catch_unwind(|| jrsonnet_rowan_parser::parse(&line).1) {
            Ok(e) => e,
            Err(_) => {
                println!("{}\tir=panic\tpeg=panic\trowan=panic\tlex={}", orig, lexed.join(","));
                continue;
            }
        };
        println!(
            "{}\tir={}\tpeg={}\trowan={}\tlex={}",
            orig,
            ir.as_ref().map_or("err".to_string(), shape),
            peg.as_ref().map_or("err".to_string(), shape),
            if errors.is_empty() { "ok" } else { "errors" },
            lexed.join(",")
        );
    }
}
