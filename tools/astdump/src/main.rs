//! Replay helper for the SMT checks (C06): parses each stdin line with the repo's real parsers and
//! prints the *shape* of the resulting tree, so that the grouping predicted from the translated
//! binding-power tables can be compared with what the linked parsers do.
//!
//! Output per line:  <src> \t ir=<shape> \t peg=<shape> \t rowan=<ok|errors>
//! shape: `bin(OP,l=<shape>,r=<shape>)`, `un(OP,<shape>)`, `atom`, `err`.
use jrsonnet_ir::{Expr, Source};
use std::io::BufRead;

fn shape(e: &Expr) -> String {
    match e {
        Expr::BinaryOp(b) => format!("bin({:?},l={},r={})", b.op, shape(&b.lhs), shape(&b.rhs)),
        Expr::UnaryOp(op, v) => format!("un({:?},{})", op, shape(v)),
        _ => "atom".to_string(),
    }
}
fn main() {
    let stdin = std::io::stdin();
    for line in stdin.lock().lines() {
        let line = line.unwrap();
        let src = Source::new_virtual("replay".into(), line.as_str().into());
        let ir = jrsonnet_ir_parser::parse(&line, &jrsonnet_ir_parser::ParserSettings { source: src.clone() });
        let peg = jrsonnet_peg_parser::parse(&line, &jrsonnet_peg_parser::ParserSettings { source: src });
        let (_tree, errors) = jrsonnet_rowan_parser::parse(&line);
        println!(
            "{}\tir={}\tpeg={}\trowan={}",
            line,
            ir.as_ref().map_or("err".to_string(), shape),
            peg.as_ref().map_or("err".to_string(), shape),
            if errors.is_empty() { "ok" } else { "errors" }
        );
    }
}
