#!/bin/bash
# usage: tools/seedtest.sh <patch.diff> <PROP> [check args...]
# applies a seeded change to /repo, runs the check, restores /repo. Prints the check's verdict lines.
set -u
diff="$(realpath "$1")"; prop="$2"; shift 2
cd /repo || exit 3
if ! git diff --quiet; then echo "repo dirty"; exit 3; fi
git apply "$diff" || { echo "patch does not apply"; exit 3; }
cd /verif
VERIF_PARTIAL=1 VERIF_SCRATCH=/var/tmp/seedrun-$$ ./check "$prop" "$@" > /var/tmp/seedrun-$$.log 2>&1
rc=$?
git -C /repo checkout -- .
grep -vE "^aborting" /var/tmp/seedrun-$$.log | grep -E "^\[|VIOLATION|KNOWN|finding" | cut -c1-260
echo "exit=$rc log=/var/tmp/seedrun-$$.log"
